"""Runtime helpers the instrumented habutax modules call as ``__hv__.<name>``
(DESIGN.md 3.2).  Every helper is the identity on concrete operands: it calls
the real operator / builtin.  That is validated by running the repository's
own tests against the instrumented modules (hv.selftest).
"""
import builtins
import math
import enum as _enum
from fractions import Fraction

from . import terms as tm
from . import symx
from .symx import Sym, SymBool, SymInt, SymFloat, SymEnum, SymStr, Unsupported, PathCut, wrap

_PROXY = (Sym, SymEnum, SymStr)

# hooks a harness may install (C19/C20/C13 stubs); default = real thing
_open = builtins.open
_input = builtins.input
_print = builtins.print


def _isp(x):
    return isinstance(x, _PROXY) or getattr(type(x), '__hv_proxy__', False)


# ---------------------------------------------------------------- compare
def cmp(op, a, b):
    if op == 'is' or op == 'is not':
        if _isp(a) or _isp(b):
            r = _identity(a, b)
            if op == 'is not':
                r = not_(r)
            return r
        return (a is b) if op == 'is' else (a is not b)
    if op == 'in' or op == 'not in':
        r = _contains(b, a)
        if op == 'not in':
            r = not_(r)
        return r
    raise ValueError(op)


def _identity(a, b):
    """`a is b` where at least one side is a proxy.  Identity is only
    meaningful for None / enum members / bool singletons."""
    if isinstance(a, SymEnum):
        return a == b
    if isinstance(b, SymEnum):
        return b == a
    hook_a = getattr(type(a), '__hv_is__', None)
    if hook_a is not None:
        return hook_a(a, b)
    hook_b = getattr(type(b), '__hv_is__', None)
    if hook_b is not None:
        return hook_b(b, a)
    if a is None or b is None:
        return False  # numeric / string proxies are never None
    if isinstance(a, SymBool) and isinstance(b, bool):
        return wrap(tm.eq(a.term, tm.B(b)), bool)
    if isinstance(b, SymBool) and isinstance(a, bool):
        return wrap(tm.eq(b.term, tm.B(a)), bool)
    if isinstance(a, _enum.Enum) or isinstance(b, _enum.Enum) or isinstance(a, type) or isinstance(b, type):
        return False
    if a is b:
        return True
    raise Unsupported('is on %s / %s' % (type(a).__name__, type(b).__name__))


def _contains(container, x):
    hook = getattr(type(container), '__hv_contains__', None)
    if hook is not None:
        return hook(container, x)
    if _isp(x) and isinstance(container, (list, tuple, set, frozenset)):
        acc = False
        for y in container:
            e = _identity(x, y) if isinstance(x, SymEnum) else (x == y)
            acc = or_(acc, e)
        return acc
    if isinstance(container, (list, tuple)) and any(_isp(y) for y in container):
        acc = False
        for y in container:
            acc = or_(acc, y == x)
        return acc
    if _isp(x) and isinstance(container, dict):
        acc = False
        for y in container:
            acc = or_(acc, x == y)
        return acc
    if getattr(type(x), '__hv_proxy__', False) and isinstance(container, str) and hasattr(x, 'chars'):
        # single-character symbolic string against a constant alphabet
        if x.n.is_const() and x.n.val == 1:
            return wrap(tm.or_(*[tm.eq(x.chars[0], tm.I(ord(ch))) for ch in container]), bool)
        raise Unsupported('substring test of a symbolic string')
    if isinstance(container, SymStr) or (isinstance(x, SymStr) and isinstance(container, str)):
        raise Unsupported('substring test on opaque string')
    return x in container


def not_(x):
    if isinstance(x, SymBool):
        return wrap(tm.not_(x.term), bool)
    return not x


def or_(a, b):
    if isinstance(a, SymBool) or isinstance(b, SymBool):
        if isinstance(a, SymBool) and isinstance(b, (bool, SymBool)) or isinstance(a, bool):
            ta = a.term if isinstance(a, SymBool) else tm.B(a)
            tb = b.term if isinstance(b, SymBool) else tm.B(b)
            return wrap(tm.or_(ta, tb), bool)
    return a or b


# ---------------------------------------------------------------- builtins
def float_(x=0.0):
    if isinstance(x, Sym):
        return wrap(tm.to_real(x.term), float)
    hook = getattr(type(x), '__hv_float__', None)
    if hook is not None:
        return hook(x)
    if isinstance(x, SymStr):
        raise Unsupported('float(opaque str)')
    return float(x)


def int_(x=0, *a):
    if isinstance(x, Sym):
        if x.pytype is float:
            # truncation toward zero
            t = x.term
            fl = tm.floor(t)
            neg = tm.lt(t, tm.R(0))
            ce = tm.neg(tm.floor(tm.neg(t)))
            return wrap(tm.ite(neg, ce, fl), int)
        return wrap(tm.to_int_of_bool(x.term), int)
    hook = getattr(type(x), '__hv_int__', None)
    if hook is not None:
        return hook(x, *a)
    if isinstance(x, SymStr):
        raise Unsupported('int(opaque str)')
    return int(x, *a)


def bool_(x=False):
    if isinstance(x, SymBool):
        return x
    if isinstance(x, Sym):
        return wrap(tm.ne(x.term, tm.I(0) if x.term.sort == 'I' else tm.R(0)), bool)
    if isinstance(x, SymStr):
        return wrap(tm.not_(x.empty), bool)
    if isinstance(x, SymEnum):
        return wrap(tm.ne(x.term, tm.I(-1)), bool) if x.nullable else True
    return bool(x)


def str_(x='', *a):
    if isinstance(x, SymStr):
        return x
    if isinstance(x, SymEnum) and PRECISE_NUM_STR:
        return builtins.str(x.concretize())
    if isinstance(x, SymEnum):
        ex = symx.cur()
        # StringyEnum.__str__ is the member name: never empty.  None -> 'None'
        return SymStr(tm.uf('str_enum_%s' % x.cls.__name__.replace(' ', '_'), (x.term,), 'I'), tm.FALSE, tm.FALSE)
    if isinstance(x, Sym) and PRECISE_NUM_STR:
        from . import bstr
        if isinstance(x, SymBool):
            return 'True' if symx.cur().decide(x.term) else 'False'
        if isinstance(x, SymInt):
            return bstr.render_int(x.term)
        raise Unsupported('str(float) is not modelled precisely')
    if isinstance(x, Sym):
        return SymStr(tm.uf('str_num', (tm.to_real(x.term),), 'I'), tm.FALSE, tm.FALSE)
    hook = getattr(type(x), '__hv_str__', None)
    if hook is not None:
        return hook(x)
    return str(x, *a)


def len_(x):
    if isinstance(x, SymStr):
        ex = symx.cur()
        n = tm.var(ex.fresh_name('len', x.ident), 'I')
        ex.assume(tm.and_(tm.le(tm.I(0), n), tm.eq(tm.eq(n, tm.I(0)), x.empty)))
        return SymInt(n)
    hook = getattr(type(x), '__hv_len__', None)
    if hook is not None:
        return hook(x)
    return len(x)


def round_(x, ndigits=None):
    if isinstance(x, Sym):
        return symx.sym_round(x, ndigits)
    if ndigits is None:
        return round(x)
    return round(x, ndigits)


def abs_(x):
    return abs(x)


def _minmax(args, key, is_max, kw):
    if len(args) == 1:
        xs = list(args[0])
    else:
        xs = list(args)
    if key is not None or kw or not any(isinstance(x, Sym) for x in xs):
        if len(args) == 1:
            return (max if is_max else min)(args[0], **(dict(key=key) if key else {}), **kw)
        return (max if is_max else min)(*args, **(dict(key=key) if key else {}), **kw)
    if not xs:
        raise ValueError('min()/max() arg is an empty sequence')
    acc = xs[0]
    for y in xs[1:]:
        la, lb = symx._lift(acc), symx._lift(y)
        if la is None or lb is None:
            raise Unsupported('min/max on non-numbers')
        (ta, pa), (tb, pb) = la, lb
        if pa is pb:
            # same Python type: the result type is path independent -> ITE
            c = tm.lt(ta, tb) if is_max else tm.lt(tb, ta)   # python keeps acc unless strictly better
            acc = wrap(tm.ite(c, tb, ta), pa)
        else:
            # different Python types (e.g. max(0, float)): the type of the
            # result depends on the comparison -> fork like CPython does
            better = (y > acc) if is_max else (y < acc)
            if better:
                acc = y
    return acc


def max_(*args, key=None, **kw):
    return _minmax(args, key, True, kw)


def min_(*args, key=None, **kw):
    return _minmax(args, key, False, kw)


def sum_(xs, start=0):
    return sum(xs, start)


def sorted_(xs, **kw):
    return sorted(xs, **kw)


def type_(x, *a):
    if a:
        return type(x, *a)
    if isinstance(x, Sym):
        return x.pytype
    if isinstance(x, SymStr):
        return str
    if isinstance(x, SymEnum):
        if x.nullable:
            if symx.cur().decide(tm.eq(x.term, tm.I(-1))):
                return type(None)
        return x.cls
    t = getattr(type(x), '__hv_type__', None)
    if t is not None:
        return t(x)
    return type(x)


def isinstance_(x, cls):
    if _isp(x):
        t = type_(x)
        if isinstance(cls, tuple):
            return any(issubclass(t, c) for c in cls)
        return issubclass(t, cls)
    return isinstance(x, cls)


def range_(*a):
    if any(isinstance(x, Sym) for x in a):
        if len(a) != 1:
            raise Unsupported('range with symbolic start/step')
        n = a[0]
        ex = symx.cur()
        t = tm.to_int_of_bool(n.term)
        if n.pytype is float:
            raise TypeError("'float' object cannot be interpreted as an integer")
        if ex.decide(tm.le(t, tm.I(0))):
            return range(0)
        for k in range(1, ex.int_bound + 1):
            if ex.decide(tm.eq(t, tm.I(k))):
                return range(k)
        raise PathCut('range(n) with n > %d' % ex.int_bound)
    return range(*a)


def math_isfinite(x):
    from . import bstr
    return bstr.isfinite(x)


def math_isnan(x):
    from . import bstr
    return bstr.isnan(x)


def math_isinf(x):
    from . import bstr
    f, n = bstr.isfinite(x), bstr.isnan(x)
    return not_(or_(f, n))


def math_ceil(x):
    return ceil_(x)


def math_floor(x):
    if isinstance(x, Sym):
        return wrap(tm.floor(tm.to_real(x.term)), int)
    return math.floor(x)


def ceil_(x):
    if isinstance(x, Sym):
        if x.pytype is float:
            return wrap(tm.neg(tm.floor(tm.neg(x.term))), int)
        return wrap(tm.to_int_of_bool(x.term), int)
    return math.ceil(x)


def open_(*a, **kw):
    return _open(*a, **kw)


def input_(*a):
    return _input(*a)


def print_(*a, **kw):
    return _print(*a, **kw)


# ------------------------------------------------------------------ strings
def fstr(parts):
    """parts: list of str | (value, conversion, spec)."""
    if not any(isinstance(p, tuple) and _isp(p[0]) for p in parts):
        out = []
        for p in parts:
            if isinstance(p, tuple):
                v, conv, spec = p
                if conv == 115:
                    v = str(v)
                elif conv == 114:
                    v = repr(v)
                elif conv == 97:
                    v = ascii(v)
                out.append(format(v, spec))
            else:
                out.append(p)
        return ''.join(out)
    # symbolic part
    pieces = []
    for p in parts:
        if isinstance(p, tuple):
            v, conv, spec = p
            if (isinstance(v, SymStr) or hasattr(v, 'chars')) and spec == '':
                pieces.append(v)
            elif isinstance(v, SymInt) and spec == '':
                # names built from counts etc. must be concrete: fork
                pieces.append(str(symx.cur().concretize(v.term)))
            elif isinstance(v, SymEnum) and spec == '':
                pieces.append(str_(v))
            elif isinstance(v, Sym):
                hook = _fmt_hook
                if hook is not None:
                    pieces.append(hook(v, spec))
                else:
                    pieces.append(str_(v))
            elif _isp(v):
                h = getattr(type(v), '__hv_format__', None)
                if h is None:
                    raise Unsupported('format of %s' % type(v).__name__)
                pieces.append(h(v, conv, spec))
            else:
                if conv == 115:
                    v = str(v)
                elif conv == 114:
                    v = repr(v)
                pieces.append(format(v, spec))
        else:
            pieces.append(p)
    acc = None
    for p in pieces:
        if acc is None:
            acc = p
        elif isinstance(acc, str) and isinstance(p, str):
            acc = acc + p
        else:
            acc = acc + p
    return acc if acc is not None else ''


_fmt_hook = None
PRECISE_NUM_STR = False


def strmeth(const, name, args, kwargs):
    if name == 'join' and len(args) == 1:
        xs = list(args[0])
        if any(_isp(x) for x in xs):
            if any(hasattr(x, 'chars') for x in xs):
                from . import bstr
                xs = [bstr.BStr.of(x) if isinstance(x, str) else x for x in xs]
            acc = None
            for x in xs:
                if acc is None:
                    acc = x
                else:
                    acc = acc + const + x
            return acc if acc is not None else ''
        return const.join(xs)
    if name == 'format' and (any(_isp(x) for x in args) or any(_isp(x) for x in kwargs.values())):
        raise Unsupported('str.format with proxies')
    return getattr(const, name)(*args, **kwargs)


# ------------------------------------------------------------------ getitem
def getitem(a, b):
    if isinstance(b, SymEnum) and isinstance(a, dict):
        return a[b.concretize()]
    if isinstance(b, SymInt) and isinstance(a, (list, tuple, str, dict)):
        return a[symx.cur().concretize(b.term)]
    if isinstance(b, SymBool) and isinstance(a, (list, tuple, dict)):
        return a[symx.cur().concretize(b.term)]
    if isinstance(b, SymStr) and isinstance(a, (dict,)) :
        raise Unsupported('dict lookup by opaque string')
    if isinstance(b, SymStr) and isinstance(a, type) and issubclass(a, _enum.Enum):
        raise Unsupported('Enum[opaque string]')
    if hasattr(b, 'chars') and getattr(type(b), '__hv_proxy__', False) and isinstance(a, type) and issubclass(a, _enum.Enum):
        from . import bstr
        return bstr.enum_lookup(a, b)
    return a[b]
