"""Replays witnesses against the UNINSTRUMENTED habutax under the repo's own
interpreter.  No z3, no hv imports: stdlib + habutax only.
Usage: replay_real.py <kind>   (JSON on stdin, JSON on stdout)
"""
import json
import sys
from fractions import Fraction


def bracket_tax(y, tops, rates):
    y = Fraction(y)
    total = Fraction(0)
    lo = Fraction(0)
    for r, hi in zip(rates, list(tops) + [None]):
        seg_hi = y if hi is None else min(y, Fraction(hi))
        total += Fraction(r, 100) * max(Fraction(0), seg_hi - lo)
        if hi is not None:
            lo = Fraction(hi)
    return total


def ref_tax(x, tops, rates):
    x = Fraction(x)
    if x < 100000:
        if x < 5:
            lo, hi = 0, 5
        elif x < 15:
            lo, hi = 5, 15
        elif x < 25:
            lo, hi = 15, 25
        elif x < 3000:
            lo = 25 * (x.numerator // (x.denominator * 25)); hi = lo + 25
        else:
            lo = 50 * (x.numerator // (x.denominator * 50)); hi = lo + 50
        t = bracket_tax(Fraction(lo + hi, 2), tops, rates) + Fraction(1, 2)
        return Fraction(t.numerator // t.denominator)
    return bracket_tax(x, tops, rates)


def k_figure_tax(d):
    import importlib
    mod = importlib.import_module('habutax.forms.ty%d.f1040_figure_tax' % d['year'])
    f1040 = importlib.import_module('habutax.forms.ty%d.f1040' % d['year'])
    enum_cls = [i for i in f1040.Form1040().inputs() if i.base_name() == 'filing_status'][0].enum
    st = enum_cls[d['status']]
    x = float(Fraction(d['x']))

    def call(v):
        try:
            return ('ok', mod.figure_tax(v, st))
        except BaseException as e:  # noqa
            return ('exc', type(e).__name__ + ': ' + str(e)[:200])
    kind, got = call(x)
    if d['mode'] == 'undefined':
        return {'reproduced': kind == 'exc', 'detail': 'figure_tax(%r) -> %s %s' % (x, kind, got)}
    if d['mode'] == 'monotone':
        x2 = float(Fraction(d['x2']))
        k2, g2 = call(x2)
        return {'reproduced': kind == 'ok' and k2 == 'ok' and x <= x2 and got > g2, 'detail': 'f(%r)=%r f(%r)=%r' % (x, got, x2, g2)}
    if kind == 'exc':
        return {'reproduced': True, 'detail': 'figure_tax(%r) raised %s' % (x, got)}
    want = ref_tax(Fraction(repr(x)), d['tops'], d['rates_pct'])
    tol = Fraction(1, 1000)
    ok = isinstance(got, float) and abs(Fraction(repr(got)) - want) <= tol
    return {'reproduced': not ok, 'detail': 'figure_tax(%r)=%r schedule=%s' % (x, got, float(want))}


KINDS = {'figure_tax': k_figure_tax}


def main():
    kind = sys.argv[1]
    d = json.load(sys.stdin)
    out = KINDS[kind](d)
    json.dump(out, sys.stdout)


if __name__ == '__main__':
    main()
