"""Replays witnesses against the UNINSTRUMENTED habutax under the repo's own
interpreter.  No z3, no hv imports: stdlib + habutax only.
Usage: replay_real.py <kind>   (JSON on stdin, JSON on stdout)
"""
import json
import sys
from fractions import Fraction


def bracket_tax(y, tops, rates):
    y = Fraction(y)
    total = Fraction(0)
    lo = Fraction(0)
    for r, hi in zip(rates, list(tops) + [None]):
        seg_hi = y if hi is None else min(y, Fraction(hi))
        total += Fraction(r, 100) * max(Fraction(0), seg_hi - lo)
        if hi is not None:
            lo = Fraction(hi)
    return total


def ref_tax(x, tops, rates):
    x = Fraction(x)
    if x < 100000:
        if x < 5:
            lo, hi = 0, 5
        elif x < 15:
            lo, hi = 5, 15
        elif x < 25:
            lo, hi = 15, 25
        elif x < 3000:
            lo = 25 * (x.numerator // (x.denominator * 25)); hi = lo + 25
        else:
            lo = 50 * (x.numerator // (x.denominator * 50)); hi = lo + 50
        t = bracket_tax(Fraction(lo + hi, 2), tops, rates) + Fraction(1, 2)
        return Fraction(t.numerator // t.denominator)
    return bracket_tax(x, tops, rates)


def k_figure_tax(d):
    import importlib
    mod = importlib.import_module('habutax.forms.ty%d.f1040_figure_tax' % d['year'])
    f1040 = importlib.import_module('habutax.forms.ty%d.f1040' % d['year'])
    enum_cls = [i for i in f1040.Form1040().inputs() if i.base_name() == 'filing_status'][0].enum
    st = enum_cls[d['status']]
    x = float(Fraction(d['x']))

    def call(v):
        try:
            return ('ok', mod.figure_tax(v, st))
        except BaseException as e:  # noqa
            return ('exc', type(e).__name__ + ': ' + str(e)[:200])
    kind, got = call(x)
    if d['mode'] == 'undefined':
        return {'reproduced': kind == 'exc', 'detail': 'figure_tax(%r) -> %s %s' % (x, kind, got)}
    if d['mode'] == 'monotone':
        x2 = float(Fraction(d['x2']))
        k2, g2 = call(x2)
        return {'reproduced': kind == 'ok' and k2 == 'ok' and x <= x2 and got > g2, 'detail': 'f(%r)=%r f(%r)=%r' % (x, got, x2, g2)}
    if kind == 'exc':
        return {'reproduced': True, 'detail': 'figure_tax(%r) raised %s' % (x, got)}
    want = ref_tax(Fraction(repr(x)), d['tops'], d['rates_pct'])
    tol = Fraction(1, 1000)
    ok = isinstance(got, float) and abs(Fraction(repr(got)) - want) <= tol
    return {'reproduced': not ok, 'detail': 'figure_tax(%r)=%r schedule=%s' % (x, got, float(want))}


def run_solve(year, form_names, inputs, prompt_answers=None):
    """Run the real Solver on an input assignment.  Returns a JSON-able dict."""
    import configparser
    from habutax import forms, inputs as hinputs, solver as hsolver
    cp = configparser.ConfigParser()
    for name, text in inputs.items():
        sec, key = name.split('.', 1)
        if not cp.has_section(sec):
            cp.add_section(sec)
        cp.set(sec, key, text.replace('%', '%%'))
    store = hinputs.InputStore(cp)
    s = hsolver.Solver(store, forms.available_forms[year], prompt=None)
    out = {'exception': None, 'solved': None, 'solution': {}, 'unimplemented': [], 'unmet_inputs': {}, 'unmet_fields': {}, 'forms': []}
    crash = {'line': None}
    orig_attempt = hsolver.Solver._attempt_field

    def attempt(self, field):
        try:
            return orig_attempt(self, field)
        except BaseException:
            if crash['line'] is None:
                crash['line'] = field.name()
            raise
    hsolver.Solver._attempt_field = attempt
    try:
        out['solved'] = bool(s.solve(list(form_names)))
        sol = s.solution()
        for sec in sol.sections():
            for k, v in sol[sec].items():
                out['solution'][sec + '.' + k] = v
        out['unimplemented'] = list(s.unimplemented_fields())
        out['unmet_inputs'] = s.unmet_input_dependencies()
        out['unmet_fields'] = s.unmet_field_dependencies()
        out['forms'] = sorted(s.forms)
    except BaseException as e:  # noqa
        import traceback
        tb = traceback.extract_tb(e.__traceback__)
        out['exception'] = {'type': type(e).__name__, 'msg': str(e)[:300], 'crash_line': crash['line'],
                            'where': ['%s:%d:%s' % (f.filename.split('/habutax/')[-1], f.lineno, f.name) for f in tb[-4:]]}
    finally:
        hsolver.Solver._attempt_field = orig_attempt
    return out


def k_solve(d):
    out = run_solve(d['year'], d['forms'], d['inputs'])
    exp = d.get('expect')
    if exp is None:
        return out
    return {'reproduced': eval_expect(exp, out), 'detail': summarize(out, exp), 'result': out}


def eval_expect(exp, out):
    """exp: dict describing the violating behaviour to confirm."""
    k = exp['kind']
    if k == 'solved':
        return out['solved'] is True and out['exception'] is None
    if k == 'exception':
        e = out['exception']
        return e is not None and (exp.get('type') is None or e['type'] in exp['type']) and (exp.get('line') is None or e.get('crash_line') == exp['line']) and (exp.get('lines') is None or e.get('crash_line') in exp['lines'])
    if k == 'line_differs':
        # solved value of line differs from an expected decimal by more than tol
        v = out['solution'].get(exp['line'])
        if v is None:
            return False
        try:
            got = Fraction(v)
        except ValueError:
            return False
        return abs(got - Fraction(exp['expected'])) > Fraction(exp.get('tol', '0.005'))
    if k == 'line_negative':
        v = out['solution'].get(exp['line'])
        return v is not None and Fraction(v) < 0 and (not exp.get('need_solved') or out['solved'] is True)
    if k in ('balance', 'nc_balance'):
        if out['solved'] is not True:
            return False
        def g(name):
            v = out['solution'].get(name)
            return Fraction(v) if v not in (None, '') else Fraction(0)
        if k == 'balance':
            a = {x: g('1040.' + x) for x in ('24', '33', '34', '35a', '36', '37')}
            w = exp['which']
            if w.startswith('34-37'):
                return a['34'] - a['37'] != a['33'] - a['24']
            if w.startswith('at most'):
                return a['34'] > 0 and a['37'] > 0
            return a['35a'] + a['36'] != a['34']
        a = {x: g('nc_d-400.' + x) for x in ('19', '25', '26a', '28', '33', '34')}
        if exp['which'].startswith('28-26a'):
            return a['28'] - a['26a'] != a['25'] - a['19']
        return 'nc_d-400.34' in out['solution'] and a['34'] + a['33'] != a['28']
    raise ValueError(k)


def summarize(out, exp):
    bits = ['solved=%s' % out['solved']]
    if out['exception']:
        bits.append('exception=%s while attempting %s at %s' % (out['exception']['type'], out['exception'].get('crash_line'), out['exception']['where'][-1:]))
    if 'line' in exp and exp['kind'] != 'exception':
        bits.append('%s=%s' % (exp['line'], out['solution'].get(exp['line'])))
    if out['unimplemented']:
        bits.append('unimplemented=%s' % out['unimplemented'][:4])
    return ' '.join(bits)


def k_program(d):
    import os, sys as _s
    _s.path.insert(0, os.path.dirname(os.path.abspath(__file__)))
    import replay_program
    out = replay_program.replay(d)
    out['reproduced'] = d['key'] in out['found']
    return out


KINDS = {'figure_tax': k_figure_tax, 'solve': k_solve, 'program': k_program}


def main():
    kind = sys.argv[1]
    d = json.load(sys.stdin)
    out = KINDS[kind](d)
    json.dump(out, sys.stdout)


if __name__ == '__main__':
    main()
