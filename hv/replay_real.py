"""Replays witnesses against the UNINSTRUMENTED habutax under the repo's own
interpreter.  No z3, no hv imports: stdlib + habutax only.
Usage: replay_real.py <kind>   (JSON on stdin, JSON on stdout)
"""
import json
import sys
from fractions import Fraction


def bracket_tax(y, tops, rates):
    y = Fraction(y)
    total = Fraction(0)
    lo = Fraction(0)
    for r, hi in zip(rates, list(tops) + [None]):
        seg_hi = y if hi is None else min(y, Fraction(hi))
        total += Fraction(r, 100) * max(Fraction(0), seg_hi - lo)
        if hi is not None:
            lo = Fraction(hi)
    return total


def ref_tax(x, tops, rates):
    x = Fraction(x)
    if x < 100000:
        if x < 5:
            lo, hi = 0, 5
        elif x < 15:
            lo, hi = 5, 15
        elif x < 25:
            lo, hi = 15, 25
        elif x < 3000:
            lo = 25 * (x.numerator // (x.denominator * 25)); hi = lo + 25
        else:
            lo = 50 * (x.numerator // (x.denominator * 50)); hi = lo + 50
        t = bracket_tax(Fraction(lo + hi, 2), tops, rates) + Fraction(1, 2)
        return Fraction(t.numerator // t.denominator)
    return bracket_tax(x, tops, rates)


def k_figure_tax(d):
    import importlib
    mod = importlib.import_module('habutax.forms.ty%d.f1040_figure_tax' % d['year'])
    f1040 = importlib.import_module('habutax.forms.ty%d.f1040' % d['year'])
    enum_cls = [i for i in f1040.Form1040().inputs() if i.base_name() == 'filing_status'][0].enum
    st = enum_cls[d['status']]
    x = float(Fraction(d['x']))

    def call(v):
        try:
            return ('ok', mod.figure_tax(v, st))
        except BaseException as e:  # noqa
            return ('exc', type(e).__name__ + ': ' + str(e)[:200])
    kind, got = call(x)
    if d['mode'] == 'undefined':
        return {'reproduced': kind == 'exc', 'detail': 'figure_tax(%r) -> %s %s' % (x, kind, got)}
    if d['mode'] == 'monotone':
        x2 = float(Fraction(d['x2']))
        k2, g2 = call(x2)
        return {'reproduced': kind == 'ok' and k2 == 'ok' and x <= x2 and got > g2, 'detail': 'f(%r)=%r f(%r)=%r' % (x, got, x2, g2)}
    if kind == 'exc':
        return {'reproduced': True, 'detail': 'figure_tax(%r) raised %s' % (x, got)}
    want = ref_tax(Fraction(repr(x)), d['tops'], d['rates_pct'])
    tol = Fraction(1, 1000)
    ok = isinstance(got, float) and abs(Fraction(repr(got)) - want) <= tol
    return {'reproduced': not ok, 'detail': 'figure_tax(%r)=%r schedule=%s' % (x, got, float(want))}


def run_solve(year, form_names, inputs, prompt_answers=None):
    """Run the real Solver on an input assignment.  Returns a JSON-able dict."""
    import configparser
    from habutax import forms, inputs as hinputs, solver as hsolver
    cp = configparser.ConfigParser()
    for name, text in inputs.items():
        sec, key = name.split('.', 1)
        if not cp.has_section(sec):
            cp.add_section(sec)
        cp.set(sec, key, text.replace('%', '%%'))
    store = hinputs.InputStore(cp)
    s = hsolver.Solver(store, forms.available_forms[year], prompt=None)
    out = {'exception': None, 'solved': None, 'solution': {}, 'unimplemented': [], 'unmet_inputs': {}, 'unmet_fields': {}, 'forms': []}
    crash = {'line': None}
    attempted = []
    orig_attempt = hsolver.Solver._attempt_field

    def attempt(self, field):
        attempted.append(field.name())
        try:
            return orig_attempt(self, field)
        except BaseException:
            if crash['line'] is None:
                crash['line'] = field.name()
            raise
    hsolver.Solver._attempt_field = attempt
    try:
        out['solved'] = bool(s.solve(list(form_names)))
        sol = s.solution()
        for sec in sol.sections():
            for k, v in sol[sec].items():
                out['solution'][sec + '.' + k] = v
        out['unimplemented'] = list(s.unimplemented_fields())
        out['unmet_inputs'] = s.unmet_input_dependencies()
        out['unmet_fields'] = s.unmet_field_dependencies()
        out['forms'] = sorted(s.forms)
        out['attempted'] = sorted(set(attempted))
    except BaseException as e:  # noqa
        import traceback
        tb = traceback.extract_tb(e.__traceback__)
        out['exception'] = {'type': type(e).__name__, 'msg': str(e)[:300], 'crash_line': crash['line'],
                            'where': ['%s:%d:%s' % (f.filename.split('/habutax/')[-1], f.lineno, f.name) for f in tb[-4:]]}
    finally:
        hsolver.Solver._attempt_field = orig_attempt
    return out


def k_solve(d):
    out = run_solve(d['year'], d['forms'], d['inputs'])
    exp = d.get('expect')
    if exp is None:
        return out
    return {'reproduced': eval_expect(exp, out), 'detail': summarize(out, exp), 'result': out}


def eval_expect(exp, out):
    """exp: dict describing the violating behaviour to confirm."""
    k = exp['kind']
    if k == 'solved':
        return out['solved'] is True and out['exception'] is None
    if k == 'exception':
        e = out['exception']
        return e is not None and (exp.get('type') is None or e['type'] in exp['type']) and (exp.get('line') is None or e.get('crash_line') == exp['line']) and (exp.get('lines') is None or e.get('crash_line') in exp['lines'])
    if k == 'carry_trace':
        # the carrying line got a value although the line its instruction names was never computed
        if out['solved'] is not True or exp['line'] not in out['solution']:
            return False
        return exp['source'] not in out.get('attempted', [exp['source']]) and exp['source'] not in out['solution']
    if k == 'line_differs':
        # solved value of line differs from an expected decimal by more than tol
        v = out['solution'].get(exp['line'])
        if v is None:
            return False
        try:
            got = Fraction(v)
        except ValueError:
            return False
        return abs(got - Fraction(exp['expected'])) > Fraction(exp.get('tol', '0.005'))
    if k == 'line_negative':
        v = out['solution'].get(exp['line'])
        return v is not None and Fraction(v) < 0 and (not exp.get('need_solved') or out['solved'] is True)
    if k == 'keys':
        if out['solved'] is not True:
            return False
        return sorted(out['solution']) != sorted(exp['keys']) or sorted(out['forms']) != sorted(exp['forms'])
    if k == 'instruction':
        if out['solved'] is not True:
            return False
        def g(name, form=None):
            v = out['solution'].get('%s.%s' % (form or exp['form'], name))
            try:
                return Fraction(v) if v not in (None, '') else Fraction(0)
            except ValueError:
                return Fraction(0)
        def ev(e):
            kk = e[0]
            if kk == 'add':
                return sum((g(x) for x in e[1]), Fraction(0))
            if kk == 'sub':
                E = g(e[1]) - g(e[2])
                return max(Fraction(0), E) if e[3] else E
            if kk == 'sub_ceil':
                d_ = g(e[1]) - g(e[2])
                st_ = Fraction(e[3])
                return Fraction(0) if d_ <= 0 else -((-d_) // st_) * st_
            if kk in ('mul_rate', 'mul_const'):
                return Fraction(e[2]) * g(e[1])
            if kk == 'min':
                return min(g(e[1]), g(e[2]))
            if kk == 'max':
                return max(g(e[1]), g(e[2]))
            if kk == 'min_const':
                st = out['solution'].get('1040.filing_status')
                return min(g(e[1]), Fraction(e[2]['MarriedFilingSeparately'] if st == 'MarriedFilingSeparately' else e[2]['other']))
            if kk == 'carry':
                return g(e[1])
            if kk == 'carry_form':
                return g(e[2], e[1])
            if kk == 'guard0':
                # an earlier line's instruction: "if zero or less, enter 0 on lines ... through ..."
                return Fraction(0) if g(e[1]) <= 0 else ev(e[2])
            raise KeyError(kk)
        try:
            E = ev(exp['expr'])
        except KeyError:
            return False
        got = out['solution'].get(exp['line'])
        if got in (None, ''):
            return False
        return abs(Fraction(got) - E) > Fraction(exp.get('tol', '0.0051'))
    if k in ('balance', 'nc_balance'):
        if out['solved'] is not True:
            return False
        def g(name):
            v = out['solution'].get(name)
            return Fraction(v) if v not in (None, '') else Fraction(0)
        if k == 'balance':
            a = {x: g('1040.' + x) for x in ('24', '33', '34', '35a', '36', '37')}
            w = exp['which']
            if w.startswith('34-37'):
                return a['34'] - a['37'] != a['33'] - a['24']
            if w.startswith('at most'):
                return a['34'] > 0 and a['37'] > 0
            return a['35a'] + a['36'] != a['34']
        a = {x: g('nc_d-400.' + x) for x in ('19', '25', '26a', '28', '33', '34')}
        if exp['which'].startswith('28-26a'):
            return a['28'] - a['26a'] != a['25'] - a['19']
        return 'nc_d-400.34' in out['solution'] and a['34'] + a['33'] != a['28']
    raise ValueError(k)


def summarize(out, exp):
    bits = ['solved=%s' % out['solved']]
    if out['exception']:
        bits.append('exception=%s while attempting %s at %s' % (out['exception']['type'], out['exception'].get('crash_line'), out['exception']['where'][-1:]))
    if 'line' in exp and exp['kind'] != 'exception':
        bits.append('%s=%s' % (exp['line'], out['solution'].get(exp['line'])))
    if exp.get('kind') == 'carry_trace':
        bits.append('%s computed: %s' % (exp['source'], exp['source'] in out.get('attempted', [])))
    if out['unimplemented']:
        bits.append('unimplemented=%s' % out['unimplemented'][:4])
    return ' '.join(bits)


def k_program(d):
    import os, sys as _s
    _s.path.insert(0, os.path.dirname(os.path.abspath(__file__)))
    import replay_program
    out = replay_program.replay(d)
    out['reproduced'] = d['key'] in out['found']
    return out


def k_input_value(d):
    """Replays one input text through the real InputStore for an input class."""
    import configparser, math, enum as _e
    from habutax import inputs as I, enum as E
    small = E.make('T', {'ab': 'first', 'c': 'second', 'Ab': 'third'})
    mk = {
        'StringInput': lambda: I.StringInput('x'), 'BooleanInput': lambda: I.BooleanInput('x'), 'IntegerInput': lambda: I.IntegerInput('x'),
        'FloatInput': lambda: I.FloatInput('x'), 'FloatInput8': lambda: I.FloatInput('x'), 'EnumInput': lambda: I.EnumInput('x', small),
        'EnumInputEmpty': lambda: I.EnumInput('x', small, allow_empty=True),
        'RegexRouting': lambda: I.RegexInput('x', '^(0[1-9]|1[0-2]|2[1-9]|3[0-2])[0-9]{7}$'), 'RegexAccount': lambda: I.RegexInput('x', '^[0-9A-Za-z\\-]{1,17}$'),
        'SSNInput': lambda: I.SSNInput('x')}[d['cls']]
    kind = {'StringInput': str, 'BooleanInput': bool, 'IntegerInput': int, 'FloatInput': float, 'FloatInput8': float, 'RegexRouting': str, 'RegexAccount': str, 'SSNInput': str}.get(d['cls'])

    class FakeForm(object):
        def name(self):
            return 'f'

    class Cfg(object):
        def has_option(self, s, k):
            return True

        def get(self, s, k):
            return d['text']
    inp = mk()
    inp.__form_init__(FakeForm())
    store = I.InputStore.__new__(I.InputStore)
    store.config = Cfg()
    store.input_specs = {'f.x': inp}
    outcome, val = None, None
    try:
        val = store['f.x']
        outcome = 'value'
    except I.MissingInput:
        outcome = 'missing'
    except I.InvalidInput:
        outcome = 'invalid'
    except Exception as e:
        outcome = 'exc:' + type(e).__name__
    try:
        valid = inp.valid(d['text'])
    except Exception as e:
        valid = 'exc:' + type(e).__name__
    try:
        inp.value(d['text'])
        raises = None
    except Exception as e:
        raises = type(e).__name__
    found = []
    if outcome == 'value':
        if valid is not True:
            found.append('value-but-invalid')
        if kind is not None and type(val) is not kind:
            found.append('wrong-type')
        if kind is None and not (val is None or isinstance(val, _e.Enum)):
            found.append('wrong-type')
        if isinstance(val, float) and not math.isfinite(val):
            found.append('non-finite')
        if d['cls'] == 'SSNInput' and not (isinstance(val, str) and len(val) == 9 and all(ch in '0123456789' for ch in val)):
            found.append('value-not-in-format')
    elif outcome == 'invalid':
        if valid is not False:
            found.append('invalid-but-valid')
    elif outcome == 'missing':
        found.append('missing-but-present')
    else:
        found.append('leak')
    if raises not in (None, 'ValueError'):
        found.append('leak')
    if (valid is True) != (raises is None) and kind in (bool, int, float, None):
        found.append('valid-value-drift')
    exp = d['expect']
    rep = exp in found or any(f.startswith(exp.split('-')[0]) for f in found if exp.startswith('leak') or exp.startswith('value-raises'))
    return {'reproduced': bool(rep), 'found': found, 'detail': 'store[%r] -> %s %r; valid=%s value() raises %s' % (d['text'], outcome, val, valid, raises)}


def k_field_value(d):
    """Concrete re-check of the typed-field contract for one returned-value tag."""
    from habutax import fields as F, enum as E
    en = E.make('Color', {'red': 'r', 'green': 'g'})
    other = E.make('Other', {'red': 'r', 'x': 'x'})

    class FakeForm(object):
        def name(self):
            return 'frm'
    import enum as _enum

    class _IntSub(_enum.IntEnum):
        A = 3
        B = 0

    class _StrSub(str):
        pass

    class _FloatSub(float):
        pass
    samples = {'int_subclass': [_IntSub.A, _IntSub.B], 'str_subclass': [_StrSub('ab')], 'float_subclass': [_FloatSub(1.5), _FloatSub(0.0)], 'none': [None], 'bool': [True, False], 'int': [0, 7, -3], 'float': [0.0, 1.005, 2.675, -1234.56789, 0.125], 'blank': ['', ' ', '\t \n'],
               'text': ['a', ' b '], 'enum': list(en), 'other_enum': list(other)}[d['tag']]
    fname, places = d['field'], d['places']
    good = {'StringField': ('none', 'blank', 'text'), 'BooleanField': ('none', 'blank', 'bool'), 'IntegerField': ('none', 'blank', 'int'),
            'FloatField': ('none', 'blank', 'float'), 'EnumField': ('none', 'blank', 'enum')}[fname]
    bad = []
    for ret in samples:
        fn = lambda s, i, v, ret=ret: ret
        if fname == 'StringField':
            fld, typ, empty = F.StringField('ln', fn), str, ''
        elif fname == 'BooleanField':
            fld, typ, empty = F.BooleanField('ln', fn), bool, False
        elif fname == 'IntegerField':
            fld, typ, empty = F.IntegerField('ln', fn), int, 0
        elif fname == 'FloatField':
            fld, typ, empty = F.FloatField('ln', fn, places=places), float, 0.0
        else:
            fld, typ, empty = F.EnumField('ln', en, fn), en, None
        fld.__form_init__(FakeForm())
        try:
            out = ('value', fld.value({}, {}))
        except TypeError as e:
            out = ('TypeError', str(e))
        except Exception as e:
            out = ('exc', type(e).__name__)
        if d['tag'] in good:
            if out[0] != 'value':
                bad.append((ret, out))
            elif d['tag'] in ('none', 'blank'):
                if not (out[1] == empty and type(out[1]) is type(empty)):
                    bad.append((ret, out))
            elif type(out[1]) is not typ:
                bad.append((ret, out))
            elif fname == 'FloatField' and (abs(out[1] - ret) > 0.5 * 10 ** -places + 1e-6 or abs(out[1] * 10 ** places - round(out[1] * 10 ** places)) > 1e-6):
                bad.append((ret, out))
        else:
            if out[0] != 'TypeError' or 'frm.ln' not in out[1]:
                bad.append((ret, out))
    return {'reproduced': bool(bad), 'detail': repr(bad[:2])[:300]}


def run_cli_session(d):
    """Drives the real habutax.solve(args) (prompting + write-back) over real
    temp files with a scripted input(); optionally interrupts at the k-th
    prompt.  Returns what was asked, the file contents afterwards and what a
    re-run asks."""
    import argparse, builtins, configparser, contextlib, io, os, re, tempfile
    import habutax
    tmp = tempfile.mkdtemp(prefix='hvcli')
    infile = os.path.join(tmp, 'in.habutax')
    cp = configparser.ConfigParser()
    removed = set(d.get('remove', []))
    kept = {}
    for name, text in d['inputs'].items():
        if name in removed:
            continue
        sec, key = name.split('.', 1)
        if not cp.has_section(sec):
            cp.add_section(sec)
        cp.set(sec, key, text.replace('%', '%%'))
        kept[name] = text
    with open(infile, 'w') as f:
        cp.write(f)
    answers = dict(d['inputs'])
    answers.update(d.get('answers', {}))
    intr = d.get('interrupt') or {}

    def session(k, kind, log, forbid=None):
        state = {'n': 0}

        def fake_input(prompt=''):
            m = re.search(r'----\[ (.*?) \]----', prompt)
            name = m.group(1) if m else log[-1][0] if log else '?'
            if not m and log:
                # "Invalid input, try again?" : the previous answer was rejected
                log.append((name, 'REASK'))
                raise KeyboardInterrupt()
            if forbid is not None and name in forbid:
                log.append((name, 'ASKED-AGAIN'))
            if k is not None and state['n'] == k:
                state['n'] += 1
                if kind == 'invalid_then_interrupt':
                    # an answer the input rejects; Ctrl-C follows at the "try again?" prompt (REASK above)
                    log.append((name, 'INVALID'))
                    return '@@'
                raise {'KeyboardInterrupt': KeyboardInterrupt, 'EOFError': EOFError}[kind]()
            state['n'] += 1
            ans = answers.get(name, '')
            log.append((name, ans))
            return ans
        args = argparse.Namespace(input_file=infile, year=d['year'], forms=list(d['forms']), prompt_missing=True, writeback_input=True,
                                  solution=os.path.join(tmp, 'sol%d.txt' % len(os.listdir(tmp))))
        old = builtins.input
        builtins.input = fake_input
        exc = None
        try:
            with contextlib.redirect_stdout(io.StringIO()):
                habutax.solve(args)
        except BaseException as e:  # noqa
            exc = type(e).__name__
        finally:
            builtins.input = old
        sol = None
        if os.path.exists(args.solution):
            with open(args.solution) as f:
                sol = f.read()
        return exc, sol
    log1 = []
    exc1, sol1 = session(intr.get('k'), intr.get('kind', 'KeyboardInterrupt'), log1)
    out = {'exc1': exc1, 'asked1': log1, 'findings': []}
    # the file afterwards
    after = configparser.ConfigParser()
    try:
        with open(infile) as f:
            after.read_file(f)
        parsed = True
    except Exception as e:
        parsed = False
        out['findings'].append('file-not-wellformed:%s' % type(e).__name__)
    if parsed:
        def getv(name):
            sec, key = name.split('.', 1)
            try:
                return after.get(sec, key) if after.has_option(sec, key) else None
            except Exception as e:
                return 'ERR:' + type(e).__name__
        for name, text in kept.items():
            if getv(name) != text.strip():
                out['findings'].append('lost-or-changed-prior:%s' % name)
                break
        given = [(n, a) for n, a in log1 if a not in ('REASK', 'ASKED-AGAIN', 'INVALID')]
        for name, a in given:
            if getv(name) != a.strip():
                out['findings'].append('lost-answer:%s' % name)
                break
        log2 = []
        exc2, sol2 = session(None, None, log2, forbid=set(n for n, a in given))
        out['exc2'] = exc2
        out['asked2'] = log2
        if any(a == 'ASKED-AGAIN' for n, a in log2):
            out['findings'].append('asks-again')
        if intr.get('k') is None and exc1 is None:
            if [x for x in log2 if x[1] != 'ASKED-AGAIN']:
                out['findings'].append('rerun-asks')
            def as_dict(txt):
                cpx = configparser.ConfigParser(interpolation=None)
                cpx.read_string(txt or '')
                return {sec: dict(cpx[sec]) for sec in cpx.sections()}
            if as_dict(sol1) != as_dict(sol2):
                out['findings'].append('rerun-differs')
    import shutil
    shutil.rmtree(tmp, ignore_errors=True)
    return out


def k_cli_session(d):
    out = run_cli_session(d)
    exp = d.get('expect')
    if exp is None:
        return out
    out['reproduced'] = any(f.split(':')[0] == exp for f in out['findings'])
    out['detail'] = 'findings=%s exc=%s asked=%d' % (out['findings'], out['exc1'], len(out['asked1']))
    return out


def _decode_pdf_literal(s, start):
    out = []
    depth = 0
    k = start
    while k < len(s):
        c = s[k]
        if c == '\\':
            k += 1
            if k >= len(s):
                raise ValueError('dangling backslash')
            e = s[k]
            m = {'n': '\n', 'r': '\r', 't': '\t', 'b': '\b', 'f': '\f', '(': '(', ')': ')', '\\': '\\'}
            if e in m:
                out.append(m[e])
            elif e in '01234567':
                o = e
                while len(o) < 3 and k + 1 < len(s) and s[k + 1] in '01234567':
                    k += 1
                    o += s[k]
                out.append(chr(int(o, 8) % 256))
            elif e == '\n':
                pass
            else:
                out.append(e)
            k += 1
            continue
        if c == '(':
            depth += 1
            out.append(c)
        elif c == ')':
            if depth == 0:
                return ''.join(out), k + 1
            depth -= 1
            out.append(c)
        else:
            out.append(c)
        k += 1
    raise ValueError('unterminated')


def k_fdf_value(d):
    import os, tempfile
    from habutax import pdf_filler
    field = 'topmostSubform[0].Page1[0].f1_04[0]'
    f = pdf_filler.PDFFiller.__new__(pdf_filler.PDFFiller)
    tmp = tempfile.mkdtemp(prefix='hvfdf')
    fn = os.path.join(tmp, 'x.fdf')
    f._create_fdf({field: d['text']}, fn)
    with open(fn) as fh:
        txt = fh.read()
    import shutil
    shutil.rmtree(tmp, ignore_errors=True)
    marker = '<< /T (%s) /V (' % field
    pos = txt.find(marker)
    try:
        dec, after = _decode_pdf_literal(txt, pos + len(marker))
        ok = dec == d['text'] and txt[after:after + 3] == ' >>'
        detail = 'decoded %r from FDF of %r' % (dec, d['text'])
    except ValueError as e:
        ok = False
        detail = 'FDF of %r is not a well-formed string (%s)' % (d['text'], e)
    return {'reproduced': not ok, 'detail': detail}



def k_line_fn(d):
    """Unit-level replay: the real (uninstrumented) definition of one line is called on concrete
    values of the inputs / lines it reads, once as given and once with two copies of a form
    renumbered; reproduced iff the two outcomes differ."""
    from habutax import forms, form as hform, inputs as I, fields as F
    classes = {c.form_name: c for c in forms.available_forms[d['year']]}
    made = {}

    class FS(object):
        class _V(object):
            def __getitem__(self, name):
                return mk(name)

            def __contains__(self, name):
                try:
                    mk(name)
                    return True
                except KeyError:
                    return False
        forms = _V()
    fs = FS()

    def mk(full):
        if full not in made:
            name, inst = hform.name_and_instance(full)
            made[full] = classes[name](solver=fs, instance=inst)
        return made[full]

    def fld(name):
        f = mk(name.split('.', 1)[0])
        for x in f.fields():
            if x.name() == name:
                return x
        raise KeyError(name)

    def inp(name):
        f = mk(name.split('.', 1)[0])
        for x in f.inputs():
            if x.name() == name:
                return x
        raise KeyError(name)

    def swap(name):
        a, b = '%s:0.' % d['form'], '%s:1.' % d['form']
        if name.startswith(a):
            return b + name[len(a):]
        if name.startswith(b):
            return a + name[len(b):]
        for pre in d.get('families', []):     # listing rows driven by the two copies swap with them
            if name == pre + '0':
                return pre + '1'
            if name == pre + '1':
                return pre + '0'
        return name

    def run(swapped):
        class Ins(object):
            def __getitem__(self, key):
                k = swap(key) if swapped else key
                if k not in d['inputs']:
                    raise I.MissingInput(key)
                return inp(key).value(d['inputs'][k])

        class Vals(object):
            def __getitem__(self, key):
                k = swap(key) if swapped else key
                if k not in d['values']:
                    raise KeyError('no value supplied for %s' % key)
                return fld(key).from_string(d['values'][k])
        f = fld(d.get('line_swapped', d['line']) if swapped else d['line'])
        try:
            v = f.value(hform.FormAccessor(Ins(), f.form()), hform.FormAccessor(Vals(), f.form()))
            return ('value', f.to_string(v))
        except Exception as e:
            return ('exc', type(e).__name__ + ': ' + str(e)[:120])
    a, b = run(False), run(True)
    return {'reproduced': a != b, 'detail': 'as numbered: %s; copies renumbered: %s' % (a, b)}


def k_field_roundtrip(d):
    from habutax import fields as F, enum as E
    en = E.make('Color', {'red': 'r', 'green': 'g', 'Blue_2': 'b'})
    fn = lambda s, i, v: None
    f, p, raw = d['field'], d['places'], d['value']
    if f == 'BooleanField':
        fld, v = F.BooleanField('ln', fn), raw == 'True'
    elif f == 'IntegerField':
        fld, v = F.IntegerField('ln', fn), int(raw)
    elif f == 'FloatField':
        fld, v = F.FloatField('ln', fn, places=p), float(Fraction(raw))
    elif f == 'EnumField':
        k = int(raw)
        fld, v = F.EnumField('ln', en, fn), (None if k < 0 else list(en)[k])
    else:
        fld, v = F.StringField('ln', fn), raw
    try:
        back = fld.from_string(fld.to_string(v))
        ok = back == v and type(back) is type(v)
        detail = '%r -> %r -> %r' % (v, fld.to_string(v), back)
    except Exception as e:
        ok, detail = False, '%r -> %s' % (v, type(e).__name__)
    return {'reproduced': not ok, 'detail': detail}


def k_solution_roundtrip(d):
    """real solve -> solution file (with the [habutax] year tag) -> the filler's
    typed re-read: every value must come back equal."""
    import argparse, configparser, contextlib, io, os, tempfile
    import habutax
    from habutax import forms, pdf_filler
    tmp = tempfile.mkdtemp(prefix='hvsol')
    infile = os.path.join(tmp, 'in.habutax')
    cp = configparser.ConfigParser()
    d = dict(d)
    d['inputs'] = dict(d['inputs'])
    # text values with characters that are special in INI files
    for name, text in (('1040.apartment_no', '#4'), ('1040.home_address', '12 Main St #4'), ('1040.occupation', 'Teacher ; tutor'), ('1040.city', 'St. John\'s = x: [y]')):
        if name in d['inputs']:
            d['inputs'][name] = text
    for name, text in d['inputs'].items():
        sec, key = name.split('.', 1)
        if not cp.has_section(sec):
            cp.add_section(sec)
        cp.set(sec, key, text.replace('%', '%%'))
    with open(infile, 'w') as f:
        cp.write(f)
    solfile = os.path.join(tmp, 'sol.txt')
    args = argparse.Namespace(input_file=infile, year=d['year'], forms=list(d['forms']), prompt_missing=False, writeback_input=False, solution=solfile)
    with contextlib.redirect_stdout(io.StringIO()):
        habutax.solve(args)
    direct = run_solve(d['year'], d['forms'], d['inputs'])
    # the real fill-pdfs command re-reads the solution (pdftk stubbed, filler captured)
    captured = {}
    cmds = []
    old_run = pdf_filler.subprocess.run
    pdf_filler.subprocess.run = lambda cmd, check=True: cmds.append(cmd)
    old_fill = pdf_filler.PDFFiller.fill

    def fill(self):
        captured['filler'] = self
        return old_fill(self)
    pdf_filler.PDFFiller.fill = fill
    try:
        habutax.fill_pdfs(argparse.Namespace(solution=solfile, output=os.path.join(tmp, 'out.pdf'), flatten=True))
    finally:
        pdf_filler.subprocess.run = old_run
        pdf_filler.PDFFiller.fill = old_fill
    filler = captured['filler']
    sol = configparser.ConfigParser()
    with open(solfile) as f:
        sol.read_file(f)
    year_tag = sol.getint('habutax', 'tax_year')
    used_year = set(type(fm).tax_year for fm in filler.forms)
    # compare typed values with what the solver held
    from habutax import solver as hsolver, inputs as hinputs
    cp2 = configparser.ConfigParser()
    with open(infile) as f:
        cp2.read_file(f)
    s = hsolver.Solver(hinputs.InputStore(cp2), forms.available_forms[d['year']])
    s.solve(list(d['forms']))
    bad = []
    n = 0
    for k, v in s._v.values.items():
        n += 1
        back = filler._values.values.get(k, '<missing>')
        import enum as _e
        if isinstance(v, str):
            same = isinstance(back, str) and back == v.strip()
        elif isinstance(v, _e.Enum):
            # enumerations are created per form instance: compare by member
            same = isinstance(back, _e.Enum) and back.name == v.name and type(back).__name__ == type(v).__name__
        else:
            same = back == v and type(back) is type(v)
        if not same:
            bad.append((k, repr(v), repr(back)))
    import shutil
    shutil.rmtree(tmp, ignore_errors=True)
    ok = not bad and year_tag == d['year'] and used_year == {d['year']} and n > 20
    out = {'ok': ok, 'compared': n, 'year_tag': year_tag, 'detail': repr(bad[:3]), 'inputs': d['inputs']}
    if d.get('expect'):
        out['reproduced'] = not ok
    return out


def k_statutory(d):
    """Confirms on the uninstrumented code that the module defining the site
    line carries the foreign constant / lacks the official one (thresholds
    tables and inline literals are both plain numeric literals in the source)."""
    import inspect, re
    from habutax import forms
    form_name = d['site'].split('.')[0].split(':')[0]
    cls = [c for c in forms.available_forms[d['year']] if c.form_name == form_name][0]
    src = inspect.getsource(inspect.getmodule(cls))
    nums = set()
    for m in re.finditer(r'(?<![\w.])(\d[\d_]*\.?\d*)', src):
        try:
            nums.add(Fraction(m.group(1).replace('_', '')))
        except Exception:
            pass
    bad_present = [b for b in d['bad'] if Fraction(b) in nums]
    missing_absent = [m for m in d['missing'] if Fraction(m) not in nums]
    rep = bool(bad_present) or bool(missing_absent) or (not d['bad'] and bool(d['missing']))
    return {'reproduced': rep, 'detail': 'module %s: foreign literals present %s, official literals absent %s' % (inspect.getmodule(cls).__name__, bad_present, missing_absent)}


def k_metamorphic(d):
    a = run_solve(d['year'], d['forms'], d['inputs'])
    inp2 = dict(d['inputs'])
    base = Fraction(inp2.get(d['input'], '0') or '0')
    delta = Fraction(int(d['delta_cents']), 100)
    inp2[d['input']] = str(float(base + delta)) if (base + delta).denominator not in (1, 2, 4, 5, 10, 20, 25, 50, 100) else '%.2f' % float(base + delta)
    b = run_solve(d['year'], d['forms'], inp2)
    if not (a['solved'] and b['solved']):
        return {'reproduced': False, 'detail': 'solved=%s/%s' % (a['solved'], b['solved'])}
    g = lambda r, n: Fraction(r['solution'].get(n) or '0')
    if d['which'] == 'wages':
        rep = g(b, '1040.24') < g(a, '1040.24')
        det = '1040.24 %s -> %s' % (a['solution'].get('1040.24'), b['solution'].get('1040.24'))
    elif d['which'] == 'deduction':
        rep = g(b, '1040.24') > g(a, '1040.24')
        det = '1040.24 %s -> %s' % (a['solution'].get('1040.24'), b['solution'].get('1040.24'))
    else:
        x1 = g(a, '1040.34') - g(a, '1040.37')
        x2 = g(b, '1040.34') - g(b, '1040.37')
        rep = (x2 - x1) != delta
        det = 'refund-owed %s -> %s for delta %s' % (float(x1), float(x2), float(delta))
    return {'reproduced': bool(rep), 'detail': det}


KINDS = {'line_fn': k_line_fn, 'metamorphic': k_metamorphic, 'statutory': k_statutory, 'field_roundtrip': k_field_roundtrip, 'solution_roundtrip': k_solution_roundtrip, 'fdf_value': k_fdf_value, 'cli_session': k_cli_session, 'field_value': k_field_value, 'figure_tax': k_figure_tax, 'solve': k_solve, 'program': k_program, 'input_value': k_input_value}


def main():
    kind = sys.argv[1]
    d = json.load(sys.stdin)
    out = KINDS[kind](d)
    json.dump(out, sys.stdout)


if __name__ == '__main__':
    main()
