"""AST import hook: loads habutax.* from /repo's *current source text*, rewrites
the constructs proxies cannot intercept into calls of hv.rt helpers
(DESIGN.md 3.2) and executes the result in place of the original module.
Nothing under /repo is modified.
"""
import ast
import importlib.abc
import importlib.machinery
import importlib.util
import os
import sys

REPO = os.environ.get('HV_REPO', '/repo')

BUILTINS = ('float', 'int', 'bool', 'str', 'len', 'round', 'abs', 'max', 'min', 'sum', 'sorted',
            'type', 'isinstance', 'range', 'open', 'input', 'print', 'ceil')

STATS = {'modules': 0, 'rewrites': 0, 'skipped_shadowed': []}


def _shadowed(tree):
    """Names from BUILTINS that the module binds itself (assignment, argument,
    def, for-target, ...).  `ceil` imported from math is the exception: that
    import is what we intercept."""
    out = set()
    for node in ast.walk(tree):
        if isinstance(node, ast.Name) and isinstance(node.ctx, (ast.Store, ast.Del)) and node.id in BUILTINS:
            out.add(node.id)
        elif isinstance(node, ast.arg) and node.arg in BUILTINS:
            out.add(node.arg)
        elif isinstance(node, (ast.FunctionDef, ast.ClassDef)) and node.name in BUILTINS:
            out.add(node.name)
        elif isinstance(node, (ast.Import, ast.ImportFrom)):
            for a in node.names:
                nm = a.asname or a.name.split('.')[0]
                if nm in BUILTINS and not (nm == 'ceil' and isinstance(node, ast.ImportFrom) and node.module == 'math'):
                    out.add(nm)
    return out


def _hv(name):
    return ast.Attribute(value=ast.Name(id='__hv__', ctx=ast.Load()), attr=name, ctx=ast.Load())


class Rewriter(ast.NodeTransformer):
    def __init__(self, shadowed):
        self.shadowed = shadowed
        self.n = 0

    def visit_Compare(self, node):
        self.generic_visit(node)
        if len(node.ops) == 1 and isinstance(node.ops[0], (ast.Is, ast.IsNot, ast.In, ast.NotIn)):
            op = {ast.Is: 'is', ast.IsNot: 'is not', ast.In: 'in', ast.NotIn: 'not in'}[type(node.ops[0])]
            self.n += 1
            return ast.copy_location(ast.Call(func=_hv('cmp'), args=[ast.Constant(op), node.left, node.comparators[0]], keywords=[]), node)
        return node

    def visit_UnaryOp(self, node):
        self.generic_visit(node)
        if isinstance(node.op, ast.Not):
            self.n += 1
            return ast.copy_location(ast.Call(func=_hv('not_'), args=[node.operand], keywords=[]), node)
        return node

    def visit_Call(self, node):
        self.generic_visit(node)
        f = node.func
        if isinstance(f, ast.Name) and f.id in BUILTINS and f.id not in self.shadowed:
            if any(isinstance(a, ast.Starred) for a in node.args) and f.id not in ('max', 'min', 'print'):
                return node
            self.n += 1
            node.func = ast.copy_location(_hv(f.id + '_'), f)
            return node
        if isinstance(f, ast.Attribute) and isinstance(f.value, ast.Name) and f.value.id == 'math' and f.attr in ('isfinite', 'isnan', 'isinf', 'ceil', 'floor') \
                and 'math' not in self.shadowed:
            self.n += 1
            node.func = ast.copy_location(_hv('math_' + f.attr), f)
            return node
        if isinstance(f, ast.Attribute) and isinstance(f.value, ast.Constant) and isinstance(f.value.value, str):
            if any(isinstance(a, ast.Starred) for a in node.args) or any(k.arg is None for k in node.keywords):
                return node
            self.n += 1
            return ast.copy_location(ast.Call(
                func=_hv('strmeth'),
                args=[f.value, ast.Constant(f.attr), ast.List(elts=node.args, ctx=ast.Load()),
                      ast.Dict(keys=[ast.Constant(k.arg) for k in node.keywords], values=[k.value for k in node.keywords])],
                keywords=[]), node)
        return node

    def visit_JoinedStr(self, node):
        self.generic_visit(node)
        parts = []
        for v in node.values:
            if isinstance(v, ast.Constant):
                parts.append(v)
            elif isinstance(v, ast.FormattedValue):
                spec = v.format_spec if v.format_spec is not None else ast.Constant('')
                parts.append(ast.Tuple(elts=[v.value, ast.Constant(v.conversion), spec], ctx=ast.Load()))
            else:  # already rewritten nested JoinedStr
                parts.append(v)
        self.n += 1
        return ast.copy_location(ast.Call(func=_hv('fstr'), args=[ast.List(elts=parts, ctx=ast.Load())], keywords=[]), node)

    def visit_Subscript(self, node):
        self.generic_visit(node)
        if isinstance(node.ctx, ast.Load):
            sl = node.slice
            if isinstance(sl, ast.Slice):
                none = ast.Constant(None)
                sl = ast.Call(func=ast.Name(id='slice', ctx=ast.Load()),
                              args=[sl.lower or none, sl.upper or none, sl.step or none], keywords=[])
            elif isinstance(sl, ast.Tuple) and any(isinstance(e, ast.Slice) for e in sl.elts):
                return node
            self.n += 1
            return ast.copy_location(ast.Call(func=_hv('getitem'), args=[node.value, sl], keywords=[]), node)
        return node


def transform(source, path):
    tree = ast.parse(source, path)
    shadowed = _shadowed(tree)
    if shadowed:
        STATS['skipped_shadowed'].append((path, sorted(shadowed)))
    rw = Rewriter(shadowed)
    tree = rw.visit(tree)
    # import hv.rt as __hv__ after docstring / __future__ imports
    imp = ast.Import(names=[ast.alias(name='hv.rt', asname='__hv__')])
    pos = 0
    body = tree.body
    if body and isinstance(body[0], ast.Expr) and isinstance(getattr(body[0], 'value', None), ast.Constant) and isinstance(body[0].value.value, str):
        pos = 1
    while pos < len(body) and isinstance(body[pos], ast.ImportFrom) and body[pos].module == '__future__':
        pos += 1
    body.insert(pos, imp)
    ast.fix_missing_locations(tree)
    STATS['modules'] += 1
    STATS['rewrites'] += rw.n
    return tree


class HvLoader(importlib.machinery.SourceFileLoader):
    def get_code(self, fullname):
        path = self.get_filename(fullname)
        data = self.get_data(path)
        return self.source_to_code(data, path)

    def source_to_code(self, data, path, *, _optimize=-1):
        tree = transform(data, path)
        return compile(tree, path, 'exec', dont_inherit=True)


class HvFinder(importlib.abc.MetaPathFinder):
    def __init__(self, repo):
        self.repo = repo

    def find_spec(self, fullname, path, target=None):
        if fullname != 'habutax' and not fullname.startswith('habutax.'):
            return None
        rel = fullname.split('.')
        base = os.path.join(self.repo, *rel)
        if os.path.isdir(base) and os.path.isfile(os.path.join(base, '__init__.py')):
            fn = os.path.join(base, '__init__.py')
            return importlib.util.spec_from_file_location(fullname, fn, loader=HvLoader(fullname, fn),
                                                          submodule_search_locations=[base])
        fn = base + '.py'
        if os.path.isfile(fn):
            return importlib.util.spec_from_file_location(fullname, fn, loader=HvLoader(fullname, fn))
        return None


_installed = None


def install(repo=None):
    """Install the hook (idempotent) and make sure no un-instrumented habutax
    is already imported."""
    global _installed
    repo = repo or REPO
    if _installed is not None:
        return _installed
    for m in list(sys.modules):
        if m == 'habutax' or m.startswith('habutax.'):
            raise RuntimeError('habutax imported before instrumentation: ' + m)
    sys.dont_write_bytecode = True
    f = HvFinder(repo)
    sys.meta_path.insert(0, f)
    if repo not in sys.path:
        sys.path.insert(0, repo)
    _installed = f
    return f
