"""Symbolic execution of real Python code on proxy values (DESIGN.md 3.1).

The real habutax functions are *called* with proxy objects.  Operators build
terms (hv.terms); truth-testing a symbolic Bool asks the path explorer, which
decides feasibility with z3 and enumerates paths depth-first by re-execution
with a decision prefix.  Solver frames are kept aligned with the decision
stack so a replayed prefix costs no solver work.
"""
import time
from fractions import Fraction
import enum as _enum

import z3

from . import terms as tm
from .terms import T


class PathCut(BaseException):
    """Path abandoned because it leaves the stated bound (recorded)."""

    def __init__(self, reason):
        self.reason = reason
        super().__init__(reason)


class Unsupported(BaseException):
    """Operation the model does not cover; recorded as inconclusive."""

    def __init__(self, what):
        self.what = what
        super().__init__(what)


class Nondeterminism(BaseException):
    pass


CUR = None  # the active Explorer


def cur():
    if CUR is None:
        raise RuntimeError('no active explorer')
    return CUR


class Rec(object):
    __slots__ = ('term', 'value', 'forced', 'alt_done', 'assume', 'framed')

    def __init__(self, term, value, forced, assume=False):
        self.term = term
        self.value = value
        self.forced = forced
        self.alt_done = False
        self.assume = assume
        self.framed = False


class Path(object):
    __slots__ = ('decisions', 'outcome', 'exc', 'cut', 'unsupported', 'events', 'fresh', 'unknown')

    def pc_terms(self, essential=True):
        out = []
        for r in self.decisions:
            if essential and r.forced and not r.assume:
                continue
            out.append(r.term if r.value else tm.not_(r.term))
        return out

    def pc(self, essential=True, fold=True):
        ts = self.pc_terms(essential)
        if fold:
            ts = tm.fold_bounds(ts)
        return tm.and_(*ts)


class Explorer(object):
    def __init__(self, timeout_ms=20000, max_paths=200000, max_decisions=100000, int_bound=6):
        self.solver = z3.Solver()
        self.solver.set('timeout', timeout_ms)
        self.base = []
        self.records = []
        self.pos = 0
        self.max_paths = max_paths
        self.max_decisions = max_decisions
        self.int_bound = int_bound
        self.stats = {'paths': 0, 'checks': 0, 'solver_s': 0.0, 'unknown': 0, 'forks': 0}
        self.model = None
        self.events = None
        self.counter = 0
        self.unknown_on_path = False
        self.prefix = ''

    # -- naming ---------------------------------------------------------
    def fresh_name(self, hint, *key_terms):
        """Name of a fresh symbol.  With key terms the symbol is a *function*
        of them (same name wherever the same term is rounded / measured), so
        its defining constraint can be asserted globally."""
        if key_terms:
            return '%s!%s' % (hint, '_'.join(tm.digest(k) if isinstance(k, T) else str(k) for k in key_terms))
        self.counter += 1
        return '%s%s!%d' % (self.prefix + '/' if self.prefix else '', hint, self.counter)

    # -- solver ---------------------------------------------------------
    def assume_base(self, term):
        self.base.append(term)
        self.solver.add(tm.to_z3(term))
        self.model = None

    def _check(self, *extra):
        t0 = time.time()
        r = self.solver.check(*[tm.to_z3(e) for e in extra])
        self.stats['checks'] += 1
        self.stats['solver_s'] += time.time() - t0
        return str(r)

    def _model_says(self, term):
        if self.model is None:
            return None
        try:
            v = self.model.eval(tm.to_z3(term), model_completion=True)
        except z3.Z3Exception:
            return None
        if z3.is_true(v):
            return True
        if z3.is_false(v):
            return False
        return None

    def decide(self, term):
        if term.is_const():
            return term.val
        if self.pos < len(self.records):
            rec = self.records[self.pos]
            if rec.term is not term or rec.assume:
                raise Nondeterminism('replay diverged at decision %d: %r vs %r' % (self.pos, rec.term, term))
            self.pos += 1
            return rec.value
        if len(self.records) >= self.max_decisions:
            raise PathCut('max_decisions')
        hint = self._model_says(term)
        # feasibility of both sides under the current path condition
        if hint is True:
            can_t = True
            r = self._check(tm.not_(term))
            can_f = r != 'unsat'
            if r == 'unknown':
                self.stats['unknown'] += 1
                self.unknown_on_path = True
            alt_model = self.solver.model() if r == 'sat' else None
            keep_model = True
        elif hint is False:
            can_f = True
            r = self._check(term)
            can_t = r != 'unsat'
            if r == 'unknown':
                self.stats['unknown'] += 1
                self.unknown_on_path = True
            alt_model = self.solver.model() if r == 'sat' else None
            keep_model = True
        else:
            r1 = self._check(term)
            m1 = self.solver.model() if r1 == 'sat' else None
            can_t = r1 != 'unsat'
            if not can_t:
                can_f = True
                r2 = 'skip'
                m2 = None
            else:
                r2 = self._check(tm.not_(term))
                m2 = self.solver.model() if r2 == 'sat' else None
                can_f = r2 != 'unsat'
            if 'unknown' in (r1, r2):
                self.stats['unknown'] += 1
                self.unknown_on_path = True
            keep_model = False
            if can_t:
                self.model = m1
                alt_model = m2
            else:
                self.model = m2 if m2 is not None else self.model
                alt_model = None
        if can_t and can_f:
            # canonical order (True first) so path numbering does not depend on
            # solver models
            value = True
            rec = Rec(term, value, False)
            if hint is False:
                self.model = alt_model
            self.solver.push()
            rec.framed = True
            self.solver.add(tm.to_z3(term if value else tm.not_(term)))
            self.stats['forks'] += 1
        elif can_t:
            rec = Rec(term, True, True)
        else:
            rec = Rec(term, False, True)
        self.records.append(rec)
        self.pos += 1
        return rec.value

    def assume(self, term):
        """Add a side constraint (definition of a fresh symbol, documented
        precondition).  Part of the path condition."""
        if term.is_const():
            if term.val:
                return
            raise PathCut('assume(False)')
        if self.pos < len(self.records):
            rec = self.records[self.pos]
            if rec.term is not term or not rec.assume:
                raise Nondeterminism('replay diverged at assume %d' % self.pos)
            self.pos += 1
            return
        rec = Rec(term, True, True, assume=True)
        self.records.append(rec)
        self.pos += 1
        self.solver.add(tm.to_z3(term))
        if self._model_says(term) is not True:
            self.model = None

    def concretize(self, term, limit=64):
        """Fork over the feasible concrete values of an Int/Bool term."""
        if term.is_const():
            return term.val
        for _ in range(limit):
            v = None
            if self.pos >= len(self.records):
                r = self._check()
                if r != 'sat':
                    raise PathCut('concretize: ' + r)
                self.model = self.solver.model()
                zv = self.model.eval(tm.to_z3(term), model_completion=True)
                v = zv.as_long() if term.sort == 'I' else z3.is_true(zv)
                c = tm.eq(term, tm.I(v) if term.sort == 'I' else tm.B(v))
            else:
                rec = self.records[self.pos]
                c = rec.term
                if c.op != 'eq':
                    raise Nondeterminism('concretize replay')
                v = c.args[1].val
            if self.decide(c):
                return v
        raise PathCut('concretize limit')

    # -- exploration ------------------------------------------------------
    def explore(self, fn):
        """Generator of Path objects, one per feasible path of fn()."""
        global CUR
        prev = CUR
        self.records = []
        base_level = 0
        try:
            while True:
                CUR = self
                self.pos = 0
                self.counter = 0
                self.events = []
                self.unknown_on_path = False
                p = Path()
                p.exc = None
                p.cut = None
                p.unsupported = None
                p.outcome = None
                try:
                    p.outcome = fn()
                except PathCut as c:
                    p.cut = c.reason
                except Unsupported as u:
                    p.unsupported = u.what
                except Nondeterminism:
                    raise
                except Exception as e:  # outcome of the code under test
                    p.exc = e
                finally:
                    CUR = prev
                p.decisions = list(self.records)
                p.events = self.events
                p.unknown = self.unknown_on_path
                self.stats['paths'] += 1
                yield p
                if self.stats['paths'] >= self.max_paths:
                    raise RuntimeError('max_paths exceeded')
                # backtrack
                while self.records and (self.records[-1].forced or self.records[-1].alt_done):
                    r = self.records.pop()
                    if r.framed:
                        self.solver.pop()
                if not self.records:
                    break
                r = self.records[-1]
                self.solver.pop()
                r.value = not r.value
                r.alt_done = True
                self.solver.push()
                self.solver.add(tm.to_z3(r.term if r.value else tm.not_(r.term)))
                self.model = None
        finally:
            CUR = prev
            # unwind remaining frames so the explorer can be reused
            for r in self.records:
                if r.framed:
                    try:
                        self.solver.pop()
                    except z3.Z3Exception:
                        pass
            self.records = []

    def event(self, *e):
        # the trailing element is the number of decision records consumed
        # before the event (orders reads relative to decisions)
        if self.events is not None:
            self.events.append(e + (self.pos,))


# ======================================================================
# proxies
# ======================================================================
EPS = Fraction(1, 1000000)


_const_cache = {}


def _lift(x):
    """python/proxy -> (term, pytype) for numbers, or None."""
    if isinstance(x, Sym):
        return x.term, x.pytype
    tx = type(x)
    if tx is int or tx is float:
        r = _const_cache.get((tx, x))
        if r is None:
            r = _lift_slow(x)
            if len(_const_cache) < 200000:
                _const_cache[(tx, x)] = r
        return r
    return _lift_slow(x)


def _lift_slow(x):
    if isinstance(x, bool):
        return tm.B(x), bool
    if isinstance(x, int):
        return tm.I(x), int
    if isinstance(x, float):
        if x != x or x in (float('inf'), float('-inf')):
            raise Unsupported('non-finite float constant')
        return tm.R(x), float
    if isinstance(x, Fraction):
        return tm.R(x), float
    return None


def wrap(term, pytype):
    """term -> python value if constant, else proxy."""
    if term.is_const():
        if pytype is bool:
            return bool(term.val)
        if pytype is int:
            return int(term.val)
        if pytype is float:
            return term.val.numerator / term.val.denominator
    if pytype is bool:
        return SymBool(term)
    if pytype is int:
        return SymInt(term)
    return SymFloat(term)


class Sym(object):
    __slots__ = ('term',)
    pytype = None

    def __init__(self, term):
        self.term = term

    # identity hash so proxies can sit in lists that get sorted/deduped by id
    def __hash__(self):
        return id(self)

    def _num(self, other, op, rop=False):
        o = _lift(other)
        if o is None:
            return NotImplemented
        ot, op_t = o
        a, at = self.term, self.pytype
        if rop:
            a, at, ot, op_t = ot, op_t, a, at
        return op(a, at, ot, op_t)

    # arithmetic ---------------------------------------------------------
    @staticmethod
    def _rt(at, bt):
        return float if float in (at, bt) else int

    def __add__(self, o):
        return self._num(o, lambda a, at, b, bt: wrap(tm.add(*_fc(a, at, b, bt)), Sym._rt(at, bt)))

    def __radd__(self, o):
        return self._num(o, lambda a, at, b, bt: wrap(tm.add(*_fc(a, at, b, bt)), Sym._rt(at, bt)), True)

    def __sub__(self, o):
        return self._num(o, lambda a, at, b, bt: wrap(tm.sub(*_fc(a, at, b, bt)), Sym._rt(at, bt)))

    def __rsub__(self, o):
        return self._num(o, lambda a, at, b, bt: wrap(tm.sub(*_fc(a, at, b, bt)), Sym._rt(at, bt)), True)

    def __mul__(self, o):
        return self._num(o, lambda a, at, b, bt: wrap(tm.mul(*_fc(a, at, b, bt)), Sym._rt(at, bt)))

    def __rmul__(self, o):
        return self._num(o, lambda a, at, b, bt: wrap(tm.mul(*_fc(a, at, b, bt)), Sym._rt(at, bt)), True)

    def __truediv__(self, o):
        return self._num(o, _truediv)

    def __rtruediv__(self, o):
        return self._num(o, _truediv, True)

    def __floordiv__(self, o):
        return self._num(o, _floordiv)

    def __rfloordiv__(self, o):
        return self._num(o, _floordiv, True)

    def __mod__(self, o):
        return self._num(o, _mod)

    def __rmod__(self, o):
        return self._num(o, _mod, True)

    def __neg__(self):
        return wrap(tm.neg(self.term), int if self.pytype is bool else self.pytype)

    def __pos__(self):
        return wrap(tm.to_int_of_bool(self.term), int if self.pytype is bool else self.pytype)

    def __abs__(self):
        t = tm.to_int_of_bool(self.term)
        return wrap(tm.abs_(t), int if self.pytype is bool else self.pytype)

    def __pow__(self, o):
        if isinstance(o, int) and not isinstance(o, bool) and 0 <= o <= 4:
            r = 1
            for _ in range(o):
                r = r * self
            return r
        raise Unsupported('pow')

    # comparison ---------------------------------------------------------
    def __lt__(self, o):
        l = _lift(o)
        if l is None:
            return NotImplemented
        t = tm.lt(self.term, l[0])
        return t.val if t.op == 'const' else SymBool(t)

    def __le__(self, o):
        l = _lift(o)
        if l is None:
            return NotImplemented
        t = tm.le(self.term, l[0])
        return t.val if t.op == 'const' else SymBool(t)

    def __gt__(self, o):
        l = _lift(o)
        if l is None:
            return NotImplemented
        t = tm.lt(l[0], self.term)
        return t.val if t.op == 'const' else SymBool(t)

    def __ge__(self, o):
        l = _lift(o)
        if l is None:
            return NotImplemented
        t = tm.le(l[0], self.term)
        return t.val if t.op == 'const' else SymBool(t)

    def __eq__(self, o):
        r = self._num(o, lambda a, at, b, bt: wrap(tm.eq(a, b), bool))
        return False if r is NotImplemented else r

    def __ne__(self, o):
        r = self._num(o, lambda a, at, b, bt: wrap(tm.ne(a, b), bool))
        return True if r is NotImplemented else r

    def __repr__(self):
        return '<%s %s>' % (type(self).__name__, tm.show(self.term))


def _fc(a, at, b, bt):
    """coerce operand terms the way Python's numeric tower does"""
    if float in (at, bt):
        return tm.to_real(a), tm.to_real(b)
    return tm.to_int_of_bool(a), tm.to_int_of_bool(b)


def _truediv(a, at, b, bt):
    zero = tm.eq(tm.to_int_of_bool(b), tm.I(0) if tm.to_int_of_bool(b).sort == 'I' else tm.R(0))
    if cur().decide(zero) if not zero.is_const() else zero.val:
        raise ZeroDivisionError('division by zero')
    return wrap(tm.div(a, b), float)


def _floordiv(a, at, b, bt):
    bz = tm.to_int_of_bool(b)
    zero = tm.eq(bz, tm.I(0) if bz.sort == 'I' else tm.R(0))
    if cur().decide(zero) if not zero.is_const() else zero.val:
        raise ZeroDivisionError('integer division or modulo by zero')
    if float in (at, bt):
        return wrap(tm.to_real(tm.floor(tm.div(a, b))), float)
    return wrap(tm.idiv(tm.to_int_of_bool(a), bz), int)


def _mod(a, at, b, bt):
    bz = tm.to_int_of_bool(b)
    zero = tm.eq(bz, tm.I(0) if bz.sort == 'I' else tm.R(0))
    if cur().decide(zero) if not zero.is_const() else zero.val:
        raise ZeroDivisionError('integer division or modulo by zero')
    if float in (at, bt):
        q = tm.to_real(tm.floor(tm.div(a, b)))
        return wrap(tm.sub(tm.to_real(a), tm.mul(tm.to_real(b), q)), float)
    return wrap(tm.imod(tm.to_int_of_bool(a), bz), int)


class SymBool(Sym):
    __slots__ = ()
    pytype = bool

    def __bool__(self):
        return cur().decide(self.term)

    def __and__(self, o):
        o2 = _lift(o)
        if o2 is None:
            return NotImplemented
        if o2[1] is bool:
            return wrap(tm.and_(self.term, o2[0]), bool)
        raise Unsupported('bool & int')

    __rand__ = __and__

    def __or__(self, o):
        o2 = _lift(o)
        if o2 is None:
            return NotImplemented
        if o2[1] is bool:
            return wrap(tm.or_(self.term, o2[0]), bool)
        raise Unsupported('bool | int')

    __ror__ = __or__

    def __invert__(self):
        raise Unsupported('~bool')

    def __index__(self):
        return 1 if cur().decide(self.term) else 0

    __hash__ = Sym.__hash__


class SymInt(Sym):
    __slots__ = ()
    pytype = int

    def __bool__(self):
        return cur().decide(tm.ne(self.term, tm.I(0)))

    def __index__(self):
        return cur().concretize(self.term)

    __hash__ = Sym.__hash__


class SymFloat(Sym):
    __slots__ = ()
    pytype = float

    def __bool__(self):
        return cur().decide(tm.ne(self.term, tm.R(0)))

    def __round__(self, ndigits=None):
        return sym_round(self, ndigits)

    __hash__ = Sym.__hash__


def sym_round(x, ndigits=None):
    """round() on a model float: any grid point within half a unit + EPS
    (DESIGN.md 3.3).  ndigits None -> returns int (Python semantics)."""
    t, pt = _lift(x)
    p = 0 if ndigits is None else int(ndigits)
    scale = Fraction(10) ** p
    if pt is not float:
        # round(int, p) with p>=0 is the identity
        if p >= 0:
            return wrap(tm.to_int_of_bool(t), int)
        raise Unsupported('round(int, negative)')
    if t.is_const():
        v = t.val * scale
        fl = v.numerator // v.denominator
        frac = v - fl
        if abs(frac - Fraction(1, 2)) > EPS * scale:
            k = fl + (1 if frac > Fraction(1, 2) else 0)
            return wrap(tm.I(k), int) if ndigits is None else wrap(tm.R(Fraction(k) / scale), float)
    if ndigits is not None:
        g = tm.grid_places(t)
        if g is not None and g <= p:
            # operand already on the 10^-p grid: decimal rounding is the identity
            return wrap(t, float)
    ex = cur()
    if getattr(ex, 'relaxed', False) and ndigits is not None:
        # relaxed model: the rounded value is any real inside the band
        # (drops integrality; still over-approximates every float outcome)
        k = None
        r = tm.var(ex.fresh_name('rndr', t, p), 'R')
    else:
        k = tm.var(ex.fresh_name('rnd', t, p, 'i' if ndigits is None else 'f'), 'I')
        r = tm.div(tm.to_real(k), tm.R(scale))
    band = Fraction(1, 2) / scale + EPS
    ex.assume(tm.and_(tm.le(tm.sub(r, t), tm.R(band)), tm.le(tm.sub(t, r), tm.R(band))))
    if ndigits is None:
        return wrap(k, int)
    return wrap(r, float)


# ----------------------------------------------------------------- enums
class SymEnum(object):
    """A member of a real Enum class chosen by an Int index term; index -1 is
    None when nullable."""
    __slots__ = ('cls', 'term', 'nullable', 'members')

    def __init__(self, cls, term, nullable=False):
        object.__setattr__(self, 'cls', cls)
        object.__setattr__(self, 'term', term)
        object.__setattr__(self, 'nullable', nullable)
        object.__setattr__(self, 'members', list(cls))

    def _eq_term(self, o):
        if isinstance(o, SymEnum):
            if o.cls is not self.cls:
                return tm.FALSE
            return tm.eq(self.term, o.term)
        if o is None:
            return tm.eq(self.term, tm.I(-1)) if self.nullable else tm.FALSE
        if isinstance(o, self.cls):
            return tm.eq(self.term, tm.I(self.members.index(o)))
        return tm.FALSE

    def __eq__(self, o):
        return wrap(self._eq_term(o), bool)

    def __ne__(self, o):
        return wrap(tm.not_(self._eq_term(o)), bool)

    def __hash__(self):
        return id(self)

    def __getattr__(self, name):
        cls = object.__getattribute__(self, 'cls')
        if name in cls.__members__:
            return cls[name]
        if name in ('name', 'value'):
            return getattr(self.concretize(), name)
        raise AttributeError(name)

    def concretize(self):
        k = cur().concretize(self.term)
        return None if k == -1 else self.members[k]

    def __bool__(self):
        # enum members are truthy, None is falsy
        if not self.nullable:
            return True
        return cur().decide(tm.ne(self.term, tm.I(-1)))

    def __repr__(self):
        return '<SymEnum %s %s>' % (self.cls.__name__, tm.show(self.term))


def fresh_enum(cls, name, nullable=False, ex=None):
    ex = ex or cur()
    t = tm.var(name, 'I')
    lo = -1 if nullable else 0
    ex.assume(tm.and_(tm.le(tm.I(lo), t), tm.le(t, tm.I(len(list(cls)) - 1))))
    return SymEnum(cls, t, nullable)


# --------------------------------------------------------- opaque strings
class SymStr(object):
    """Opaque string token: identity term + 'empty' and 'blank' (whitespace
    only) flags.  Content is not modelled (DESIGN.md 3.4: strings that merely
    pass through form lines)."""
    __slots__ = ('ident', 'empty', 'blank')
    pytype = str

    def __init__(self, ident, empty, blank):
        self.ident = ident
        self.empty = empty
        self.blank = blank

    @staticmethod
    def of(x):
        if isinstance(x, SymStr):
            return x
        if isinstance(x, str):
            h = abs(hash(('lit', x))) % (10 ** 9)
            return SymStr(tm.uf('lit_%d' % h, (), 'I'), tm.B(x == ''), tm.B(x.strip() == ''))
        raise Unsupported('SymStr.of(%r)' % type(x))

    def _derive(self, opname, empty, blank, *others):
        args = (self.ident,) + tuple(o.ident for o in others)
        return SymStr(tm.uf('s_' + opname, args, 'I'), empty, blank)

    def strip(self, chars=None):
        if chars is not None:
            raise Unsupported('strip(chars)')
        return self._derive('strip', self.blank, self.blank)

    def upper(self):
        return self._derive('upper', self.empty, self.blank)

    def lower(self):
        return self._derive('lower', self.empty, self.blank)

    def title(self):
        return self._derive('title', self.empty, self.blank)

    def replace(self, a, b, *rest):
        ex = cur()
        key = 'r%d' % (abs(hash((a, b))) % 10 ** 6)
        e = tm.var(ex.fresh_name('repl_empty', self.ident, key), 'B')
        bl = tm.var(ex.fresh_name('repl_blank', self.ident, key), 'B')
        ex.assume(tm.and_(tm.implies(self.empty, e), tm.implies(e, bl)))
        return self._derive('replace_%d' % (abs(hash((a, b))) % 10 ** 6), e, bl)

    def __add__(self, o):
        if not isinstance(o, (str, SymStr)):
            return NotImplemented
        o = SymStr.of(o)
        return self._derive('cat', tm.and_(self.empty, o.empty), tm.and_(self.blank, o.blank), o)

    def __radd__(self, o):
        if not isinstance(o, (str, SymStr)):
            return NotImplemented
        return SymStr.of(o).__add__(self)

    def __getitem__(self, k):
        ex = cur()
        kk = 's%s' % (abs(hash((k.start, k.stop, k.step) if isinstance(k, slice) else k)) % 10 ** 6)
        e = tm.var(ex.fresh_name('slice_empty', self.ident, kk), 'B')
        bl = tm.var(ex.fresh_name('slice_blank', self.ident, kk), 'B')
        ex.assume(tm.and_(tm.implies(self.empty, e), tm.implies(self.blank, bl), tm.implies(e, bl)))
        if isinstance(k, slice):
            key = (k.start, k.stop, k.step)
        else:
            key = k
            # indexing an empty string raises
            if ex.decide(self.empty):
                raise IndexError('string index out of range')
        return self._derive('item_%d' % (abs(hash(key)) % 10 ** 6), e, bl)

    def __eq__(self, o):
        if isinstance(o, str):
            if o == '':
                return wrap(self.empty, bool)
            o = SymStr.of(o)
        if isinstance(o, SymStr):
            if o.ident is self.ident:
                return True
            t = tm.eq(self.ident, o.ident)
            ex = cur()
            # equal strings share flags
            return wrap(tm.and_(t, tm.eq(self.empty, o.empty), tm.eq(self.blank, o.blank)), bool)
        return False

    def __ne__(self, o):
        r = self.__eq__(o)
        if isinstance(r, bool):
            return not r
        return wrap(tm.not_(r.term), bool)

    def __hash__(self):
        return id(self)

    def __bool__(self):
        return cur().decide(tm.not_(self.empty))

    def __len__(self):
        raise Unsupported('len(SymStr) via __len__')

    def __iter__(self):
        raise Unsupported('iter(SymStr)')

    def __contains__(self, x):
        raise Unsupported('in SymStr')

    def __format__(self, spec):
        raise Unsupported('format(SymStr) outside instrumented f-string')

    def split(self, *a):
        raise Unsupported('SymStr.split')

    def __repr__(self):
        return '<SymStr %s>' % tm.show(self.ident)


def fresh_str(name, ex=None, stripped=True):
    """A fresh opaque string.  stripped=True: the value has no surrounding
    whitespace (true of every StringInput value and every stored StringField
    value), so blank <=> empty."""
    ex = ex or cur()
    e = tm.var(name + '#empty', 'B')
    if stripped:
        b = e
    else:
        b = tm.var(name + '#blank', 'B')
        ex.assume(tm.implies(e, b))
    return SymStr(tm.var(name + '#id', 'I'), e, b)


# ----------------------------------------------------------- constructors
def fresh_bool(name):
    return SymBool(tm.var(name, 'B'))


def fresh_int(name, lo=None, hi=None, ex=None):
    t = tm.var(name, 'I')
    ex = ex or cur()
    cs = []
    if lo is not None:
        cs.append(tm.le(tm.I(lo), t))
    if hi is not None:
        cs.append(tm.le(t, tm.I(hi)))
    if cs:
        ex.assume(tm.and_(*cs))
    return SymInt(t)


def fresh_money(name, places=2, lo=None, hi=None, ex=None, grid=True):
    """A float lying on the 10^-places grid (k/10^places, k Int)."""
    ex = ex or cur()
    if grid and not getattr(ex, 'relaxed', False):
        k = tm.var(name + '#k', 'I')
        t = tm.div(tm.to_real(k), tm.R(Fraction(10) ** places))
    else:
        t = tm.var(name, 'R')
    cs = []
    if lo is not None:
        cs.append(tm.le(tm.R(lo), t))
    if hi is not None:
        cs.append(tm.le(t, tm.R(hi)))
    if cs:
        ex.assume(tm.and_(*cs))
    return SymFloat(t)


def fresh_real(name, lo=None, hi=None, ex=None):
    return fresh_money(name, lo=lo, hi=hi, ex=ex, grid=False)
