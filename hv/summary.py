"""Line summaries (DESIGN.md 3.6): every feasible path of the real
Field.value() of a shipped line, run on symbolic inputs / line values.

A summary is the solver-checked case split of the real function: for each path
its decisions, side constraints (fresh symbols), ordered reads and outcome.
"""
import importlib
import time
from fractions import Fraction

from . import instrument, symx, rt
from . import terms as tm

MONEY_BOUND = 10 ** 8
INT_BOUND = 10 ** 6


class UnknownForm(Exception):
    def __init__(self, name):
        self.name = name
        super().__init__('unknown form ' + name)


class UnknownLine(Exception):
    def __init__(self, name):
        self.name = name
        super().__init__('unknown line ' + name)


class UnknownInput(Exception):
    def __init__(self, name):
        self.name = name
        super().__init__('unknown input ' + name)


class FakeSolver(object):
    """What Field.form(name) needs: solver().forms[name]."""

    def __init__(self, cat):
        self.forms = _FormsView(cat)


class _FormsView(object):
    def __init__(self, cat):
        self.cat = cat

    def __getitem__(self, name):
        symx.cur().event('form_lookup', name)
        try:
            return self.cat.form(name)
        except UnknownForm:
            raise KeyError(name)

    def __contains__(self, name):
        try:
            self.cat.form(name)
            return True
        except UnknownForm:
            return False


class Catalogue(object):
    def __init__(self, year):
        instrument.install()
        self.year = year
        forms = importlib.import_module('habutax.forms')
        self.hab_inputs = importlib.import_module('habutax.inputs')
        self.hab_fields = importlib.import_module('habutax.fields')
        self.hab_form = importlib.import_module('habutax.form')
        self.hab_values = importlib.import_module('habutax.values')
        self.classes = list(forms.available_forms[year])
        self.form_map = {c.form_name: c for c in self.classes}
        self._forms = {}
        self._fields = {}
        self._inputs = {}
        self.solver = FakeSolver(self)

    def form(self, full_name):
        f = self._forms.get(full_name)
        if f is not None:
            return f
        name, inst = self.hab_form.name_and_instance(full_name)
        cls = self.form_map.get(name)
        if cls is None:
            raise UnknownForm(name)
        f = cls(solver=self.solver, instance=inst)
        self._forms[full_name] = f
        for fld in f.fields():
            self._fields[fld.name()] = fld
        for i in f.inputs():
            self._inputs[i.name()] = i
        return f

    def field(self, name):
        if '.' not in name:
            raise UnknownLine(name)
        form_name, base = name.split('.', 1)
        self.form(form_name)
        f = self._fields.get(name)
        if f is None:
            raise UnknownLine(name)
        return f

    def input(self, name):
        form_name, base = name.split('.', 1)
        self.form(form_name)
        i = self._inputs.get(name)
        if i is None:
            raise UnknownInput(name)
        return i

    def count_inputs(self, inp):
        """names of all copy-count inputs of the form that owns inp"""
        I = self.hab_inputs
        return sorted(i.name() for i in inp._form.inputs()
                      if type(i) is I.IntegerInput and i.base_name().startswith('number_') and i.base_name() != 'number_dependents')

    def is_copy_form(self, cls):
        return issubclass(cls, self.hab_form.InputForm)

    def default_instances(self, cls):
        if hasattr(cls, 'valid_instances'):
            return list(cls.valid_instances)
        if self.is_copy_form(cls):
            return ['0']
        return [None]


# ---------------------------------------------------------------- symbols
def input_symbol(cat, inp, nonneg=False):
    """A fresh symbol of the input's declared type, named by the input."""
    I = cat.hab_inputs
    name = 'i:' + inp.name()
    ex = symx.cur()
    t = type(inp)
    if t is I.BooleanInput:
        return symx.fresh_bool(name)
    if t is I.IntegerInput:
        lo = 0 if nonneg else -INT_BOUND
        hi = INT_BOUND
        if inp.base_name() == 'number_dependents':
            lo, hi = 0, 5
        elif inp.base_name().startswith('number_'):
            lo, hi = 0, getattr(ex, 'copies_max', ex.int_bound)
            r = symx.fresh_int(name, lo, hi)
            tot = getattr(ex, 'copies_total', None)
            if tot is not None:
                acc = tm.I(0)
                nonneg_all = []
                for other in cat.count_inputs(inp):
                    ov = tm.var('i:' + other, 'I')
                    acc = tm.add(acc, ov)
                    nonneg_all.append(tm.le(tm.I(0), ov))     # counts not read on this path are counts too
                ex.assume(tm.and_(tm.le(acc, tm.I(tot)), *nonneg_all))
            return r
        return symx.fresh_int(name, lo, hi)
    if t is I.FloatInput:
        if getattr(ex, 'cents', False) and 'pct' not in inp.base_name():
            # stated bound of the whole-return checks: amounts typed in whole cents
            return symx.fresh_money(name, places=2, lo=(0 if nonneg else -MONEY_BOUND), hi=MONEY_BOUND)
        return symx.fresh_real(name, 0 if nonneg else -MONEY_BOUND, MONEY_BOUND)
    if t is I.EnumInput:
        return symx.fresh_enum(inp.enum, name, nullable=inp.allow_empty)
    if t in (I.SSNInput, I.RegexInput):
        s = symx.fresh_str(name)
        ex.assume(tm.not_(s.empty))
        return s
    if t is I.StringInput:
        return symx.fresh_str(name)
    raise symx.Unsupported('input type %s' % t.__name__)


def line_symbol(cat, fld, nonneg=False):
    F = cat.hab_fields
    name = 'v:' + fld.name()
    t = type(fld)
    if t is F.FloatField:
        return symx.fresh_money(name, places=fld._places, lo=(0 if nonneg else -MONEY_BOUND * 100), hi=MONEY_BOUND * 100)
    if t is F.IntegerField:
        return symx.fresh_int(name, -INT_BOUND, INT_BOUND)
    if t is F.BooleanField:
        return symx.fresh_bool(name)
    if t is F.StringField:
        return symx.fresh_str(name)
    if t is F.EnumField:
        return symx.fresh_enum(fld.enum(), name, nullable=True)
    raise symx.Unsupported('field type %s' % t.__name__)


class SymInputs(object):
    """Stands in for InputStore: every catalogued input is present with a
    symbolic value of its declared type (InputStore's own gates are C11)."""

    def __init__(self, cat, nonneg=False):
        self.cat = cat
        self.nonneg = nonneg

    def __getitem__(self, key):
        ex = symx.cur()
        try:
            inp = self.cat.input(key)
        except UnknownForm as e:
            ex.event('input_unknown_form', key)
            raise
        except UnknownInput:
            ex.event('input_unknown', key)
            raise
        ex.event('read_input', key)
        return input_symbol(self.cat, inp, self.nonneg)


class SymValues(object):
    def __init__(self, cat, nonneg_lines=None):
        self.cat = cat
        self.nonneg_lines = nonneg_lines or (lambda name: False)

    def __getitem__(self, key):
        ex = symx.cur()
        try:
            fld = self.cat.field(key)
        except UnknownForm:
            ex.event('line_unknown_form', key)
            raise
        except UnknownLine:
            ex.event('line_unknown', key)
            raise
        ex.event('read_line', key)
        return line_symbol(self.cat, fld, self.nonneg_lines(key))


# ---------------------------------------------------------------- summarise
class PathSummary(object):
    __slots__ = ('decisions', 'assumes', 'conds', 'reads', 'kind', 'value', 'pytype', 'exc', 'detail', 'events', 'unknown')


def classify(cat, p):
    """Outcome class of a path of Field.value()."""
    F = cat.hab_fields
    s = PathSummary()
    s.decisions = [r.term if r.value else tm.not_(r.term) for r in p.decisions if not r.assume and not r.forced]
    s.assumes = [r.term for r in p.decisions if r.assume]
    s.events = p.events
    # ordered essential conditions, and for each read how many of them precede it
    # (assumes are total definitions / typing of fresh symbols and inputs: they
    # are kept apart and asserted globally by the return model)
    ess_before = []
    cnt = 0
    s.conds = []
    for r in p.decisions:
        ess_before.append(cnt)
        if not r.assume and not r.forced:
            s.conds.append(r.term if r.value else tm.not_(r.term))
            cnt += 1
    ess_before.append(cnt)
    s.reads = [(e[0], e[1], ess_before[min(e[-1], len(p.decisions))]) for e in p.events if e[0] in ('read_line', 'read_input')]
    s.exc = None
    s.value = None
    s.pytype = None
    s.detail = None
    s.unknown = p.unknown
    if p.cut:
        s.kind = 'cut'
        s.detail = p.cut
    elif p.unsupported:
        s.kind = 'unsupported'
        s.detail = p.unsupported
    elif p.exc is not None:
        e = p.exc
        s.exc = e
        if isinstance(e, F.FieldNotImplemented):
            s.kind = 'not_implemented'
            s.detail = e.field_name
        elif isinstance(e, UnknownForm):
            s.kind = 'unknown_form'
            s.detail = e.name
        elif isinstance(e, UnknownLine):
            s.kind = 'unknown_line'
            s.detail = e.name
        elif isinstance(e, UnknownInput):
            s.kind = 'unknown_input'
            s.detail = e.name
        elif isinstance(e, TypeError) and 'expected to produce type' in str(e):
            s.kind = 'type_error'
            s.detail = str(e)
        else:
            s.kind = 'exception'
            s.detail = '%s: %s' % (type(e).__name__, str(e)[:200])
    else:
        s.kind = 'value'
        s.value = p.outcome
        s.pytype = rt.type_(p.outcome) if not isinstance(p.outcome, symx.SymEnum) else p.outcome.cls
    return s


def summarise(cat, fld, int_bound=2, nonneg=False, timeout_ms=20000, max_paths=60000, nonneg_lines=None, copies_total=None, relaxed=False, cents=False):
    """All feasible paths of fld.value(i, v)."""
    ex = symx.Explorer(timeout_ms=timeout_ms, max_paths=max_paths, int_bound=max(int_bound, 5))
    ex.copies_max = int_bound
    ex.copies_total = copies_total
    ex.relaxed = relaxed
    ex.cents = cents
    ex.prefix = fld.name()
    FA = cat.hab_form.FormAccessor
    si = SymInputs(cat, nonneg)
    sv = SymValues(cat, nonneg_lines)

    def body():
        return fld.value(FA(si, fld.form()), FA(sv, fld.form()))
    out = []
    t0 = time.time()
    complete = True
    try:
        for p in ex.explore(body):
            out.append(classify(cat, p))
    except RuntimeError as e:
        if 'max_paths' in str(e):
            complete = False
        else:
            raise
    return out, ex.stats, complete


def all_line_instances(cat):
    """(form full name, field) for every line of every catalogued form, using
    the default instance set."""
    for cls in cat.classes:
        for inst in cat.default_instances(cls):
            full = cls.form_name if inst is None else '%s:%s' % (cls.form_name, inst)
            f = cat.form(full)
            for fld in f.fields():
                yield full, fld
