"""Whole-return model composed from line summaries (DESIGN.md 3.7).

    sel[L,p]  : line L was evaluated along its path p
    dem[L]    : L is demanded (scheduled by the solver)
    in[F]     : form instance F takes part (is in Solver.forms)

    att[L,p,j]: an attempt of L along p reaches its j-th line read
               = dem[L] and conditions before read j and earlier reads valued
    sel[L,p] <=> att after the last read and the remaining conditions;
                 sel[L,p] => OUT_p(var_L)
    blocked[L] <=> dem[L] and no sel (waits for a line that never gets a value)
    dem[M]  <=> required(M) and in[form(M)]  or  OR att[L,p,j] over reads j of M
    in[F]   <=> requested(F) or OR att[L,p,j] over reads of a line of F
    ni[L]   <=> OR_{p not_implemented} sel[L,p]      (same for err)
    solved  <=> no ni, no err

Whether the real solver computes this least fixed point is C01/C03/C04's
business (decided on the algorithm); here the model is validated
differentially on every witness (replayed through the real Solver).
"""
import os
import re
import shutil
import subprocess
import tempfile
import time
from fractions import Fraction

import z3

from . import common, instrument, summary, symx, rt
from . import terms as tm


# ------------------------------------------------------------- value coding
def enc_value(v):
    """field.value() outcome -> picklable ('num', sortchar, pytype, term) etc."""
    if isinstance(v, symx.SymStr):
        return ('str', v.ident, v.empty)
    if isinstance(v, str):
        s = symx.SymStr.of(v)
        return ('str', s.ident, s.empty)
    if isinstance(v, symx.SymEnum):
        return ('enum', v.term)
    if v is None:
        return ('enum', tm.I(-1))
    import enum as _e
    if isinstance(v, _e.Enum):
        return ('enum', tm.I(list(type(v)).index(v)))
    l = symx._lift(v)
    if l is None:
        raise ValueError('cannot encode %r' % (v,))
    return ('num', l[0], l[1].__name__)


def line_var(cat, fld, relaxed=False):
    """(kind, terms...) of the stored value of a line, named like the symbols
    SymValues hands to readers."""
    F = cat.hab_fields
    name = 'v:' + fld.name()
    t = type(fld)
    if t is F.FloatField:
        if relaxed:
            return ('num', tm.var(name, 'R'), 'float')
        k = tm.var(name + '#k', 'I')
        return ('num', tm.div(tm.to_real(k), tm.R(Fraction(10) ** fld._places)), 'float')
    if t is F.IntegerField:
        return ('num', tm.var(name, 'I'), 'int')
    if t is F.BooleanField:
        return ('num', tm.var(name, 'B'), 'bool')
    if t is F.StringField:
        return ('str', tm.var(name + '#id', 'I'), tm.var(name + '#empty', 'B'))
    if t is F.EnumField:
        return ('enum', tm.var(name, 'I'))
    raise ValueError(t)


def out_eq(lv, ov):
    if lv[0] != ov[0]:
        return tm.FALSE
    if lv[0] == 'num':
        return tm.eq(lv[1], ov[1])
    if lv[0] == 'str':
        return tm.and_(tm.eq(lv[1], ov[1]), tm.eq(lv[2], ov[2]))
    return tm.eq(lv[1], ov[1])


# ------------------------------------------------------------- summarising
def _install_ft_stub(year, mode='uf'):
    """Replace figure_tax inside the form modules by its summary (DESIGN 3.5):
    mode 'uf'  : uninterpreted FT_year(status, x) with 0 <= FT <= 0.37 x
    mode 'ref' : the statutory schedule term that C07 proves the real function
                 equal to (used when witnesses must reproduce numerically)."""
    import importlib
    if mode == 'ref':
        from .checks import c07
        orc = c07.load_oracle()
    for modname in ('f1040', 'f1040_qualdiv_capgain_tax_wkst'):
        m = importlib.import_module('habutax.forms.ty%d.%s' % (year, modname))
        if getattr(m.figure_tax, '__hv_stub__', False):
            continue

        def ft(x, status, _year=year):
            l = symx._lift(x)
            if l is None or not isinstance(status, (symx.SymEnum,)) and not hasattr(status, 'name'):
                raise symx.Unsupported('figure_tax stub args')
            xt = tm.to_real(l[0])
            ex = symx.cur()
            if ex.decide(tm.lt(xt, tm.R(0))):
                raise AssertionError('figure_tax: negative taxable amount')
            if isinstance(status, symx.SymEnum):
                st = status.term
            else:
                st = tm.I(list(type(status)).index(status))
            if mode == 'ref':
                if isinstance(status, symx.SymEnum):
                    members = status.members
                else:
                    members = list(type(status))
                r = None
                for k, mem in reversed(list(enumerate(members))):
                    tops = orc['schedules'][str(_year)][orc['status_to_column'][mem.name]]
                    ref = tm.ite(tm.lt(xt, tm.R(100000)), c07.ref_table_term(xt, tops, orc['rates_pct']), c07.bracket_tax_term(xt, tops, orc['rates_pct']))
                    r = ref if r is None else tm.ite(tm.eq(st, tm.I(k)), ref, r)
                return symx.wrap(r, float)
            r = tm.uf('FT_%d' % _year, (st, xt), 'R')
            ex.assume(tm.and_(tm.le(tm.R(0), r), tm.implies(tm.le(tm.R(0), xt), tm.le(r, tm.mul(tm.R(Fraction(37, 100)), xt)))))
            return symx.wrap(r, float)
        ft.__hv_stub__ = True
        m.figure_tax = ft


def _summarise_chunk(arg):
    year, K, names, opts = arg
    cat = summary.Catalogue(year)
    if opts.get('ft_stub', True):
        _install_ft_stub(year, opts.get('ft', 'uf'))
    out = {}
    for name in names:
        fld = cat.field(name)
        t0 = time.time()
        ps, stats, complete = summary.summarise(cat, fld, int_bound=K, nonneg=opts.get('nonneg', False),
                                                max_paths=opts.get('max_paths', 60000), copies_total=opts.get('S'), relaxed=opts.get('relaxed', False), cents=opts.get('cents', False))
        terms = []
        paths = []
        for p in ps:
            d = {'kind': p.kind, 'detail': p.detail, 'reads': p.reads, 'unknown': p.unknown,
                 'nc': len(p.conds), 'na': len(p.assumes)}
            terms.extend(p.conds)
            terms.extend(p.assumes)
            if p.kind == 'value':
                ev = enc_value(p.value)
                d['vkind'] = ev[0]
                d['pytype'] = p.pytype.__name__ if isinstance(p.pytype, type) else str(p.pytype)
                if ev[0] == 'num':
                    terms.append(ev[1])
                    d['vpy'] = ev[2]
                    d['nv'] = 1
                elif ev[0] == 'str':
                    terms.extend([ev[1], ev[2]])
                    d['nv'] = 2
                else:
                    terms.append(ev[1])
                    d['nv'] = 1
            paths.append(d)
        out[name] = {'paths': paths, 'terms': tm.dump_terms(terms), 'complete': complete, 'secs': time.time() - t0,
                     'stats': stats}
    return out


def instance_names(cat, K):
    """Every line of every form instance inside the bound: copy forms get
    instances 0..K-1."""
    names = []
    for cls in cat.classes:
        if hasattr(cls, 'valid_instances'):
            insts = list(cls.valid_instances)
        elif cat.is_copy_form(cls):
            insts = [str(n) for n in range(K)]
        else:
            insts = [None]
        for inst in insts:
            full = cls.form_name if inst is None else '%s:%s' % (cls.form_name, inst)
            f = cat.form(full)
            for fld in f.fields():
                names.append(fld.name())
    return names


def preload(specs, procs=None):
    """Compute (and cache) the summaries of several (year, K, opts) at once so
    that all years share one process pool."""
    import pickle
    jobs = []
    metas = []
    for year, K, opts in specs:
        cat = summary.Catalogue(year)
        names = instance_names(cat, K)
        key = '%s-%d-%d-%s' % (_tree_hash(), year, K, '_'.join('%s=%s' % kv for kv in sorted(opts.items())))
        cache_file = os.path.join(common.VERIF, '.cache', key + '.pkl')
        if os.path.exists(cache_file) and os.environ.get('HV_NO_CACHE') != '1':
            continue
        chunks = [names[i::48] for i in range(48)]
        chunks = [c for c in chunks if c]
        metas.append((cache_file, len(jobs), len(chunks)))
        jobs.extend((year, K, c, opts) for c in chunks)
    if not jobs:
        return
    res = common.pmap(_summarise_chunk, jobs, procs)
    for cache_file, start, n in metas:
        os.makedirs(os.path.dirname(cache_file), exist_ok=True)
        tmp = cache_file + '.%d.tmp' % os.getpid()
        with open(tmp, 'wb') as f:
            pickle.dump(res[start:start + n], f)
        os.replace(tmp, cache_file)


class LinePath(object):
    __slots__ = ('kind', 'detail', 'reads', 'conds', 'assumes', 'value', 'pytype', 'unknown')


def _tree_hash():
    import hashlib
    h = hashlib.sha256()
    for base in (os.path.join(instrument.REPO, 'habutax'), os.path.join(common.VERIF, 'hv')):
        for root, dirs, files in sorted(os.walk(base)):
            # hv/checks holds the per-property drivers only: they do not affect summaries or explorations
            dirs[:] = sorted(d for d in dirs if not (base.endswith('hv') and d == 'checks'))
            for fn in sorted(files):
                if fn.endswith('.py') and not (base.endswith('hv') and fn in ('replay_real.py', 'cli.py')):   # replays run in another process on the real code
                    p = os.path.join(root, fn)
                    h.update(p.encode())
                    with open(p, 'rb') as f:
                        h.update(f.read())
    return h.hexdigest()[:24]


def load_summaries(year, K, opts=None, names=None, procs=None):
    """Summaries are recomputed from /repo's current source; the on-disk cache
    is keyed by the content hash of habutax/**.py and hv/**.py (pure
    optimisation, safe to delete)."""
    import pickle
    opts = opts or {}
    cat = summary.Catalogue(year)
    cache_file = None
    if names is None:
        names = instance_names(cat, K)
        if True:
            key = '%s-%d-%d-%s' % (_tree_hash(), year, K, '_'.join('%s=%s' % kv for kv in sorted(opts.items())))
            cache_file = os.path.join(common.VERIF, '.cache', key + '.pkl')
    res = None
    if cache_file and os.path.exists(cache_file) and (os.environ.get('HV_NO_CACHE') != '1' or os.environ.get('HV_PRELOADED') == '1'):
        try:
            with open(cache_file, 'rb') as f:
                res = pickle.load(f)
        except Exception:
            res = None
    if res is None:
        chunks = [names[i::64] for i in range(64)]
        chunks = [c for c in chunks if c]
        res = common.pmap(_summarise_chunk, [(year, K, c, opts) for c in chunks], procs)
        if cache_file:
            os.makedirs(os.path.dirname(cache_file), exist_ok=True)
            tmp = cache_file + '.%d.tmp' % os.getpid()
            with open(tmp, 'wb') as f:
                pickle.dump(res, f)
            os.replace(tmp, cache_file)
    summ = {}
    meta = {}
    for part in res:
        for name, d in part.items():
            ts = tm.load_terms(d['terms'])
            pos = 0
            lps = []
            for pd in d['paths']:
                lp = LinePath()
                lp.kind, lp.detail, lp.reads, lp.unknown = pd['kind'], pd['detail'], pd['reads'], pd['unknown']
                lp.conds = ts[pos:pos + pd['nc']]
                pos += pd['nc']
                lp.assumes = ts[pos:pos + pd['na']]
                pos += pd['na']
                lp.value = None
                lp.pytype = pd.get('pytype')
                if pd['kind'] == 'value':
                    nv = pd['nv']
                    vt = ts[pos:pos + nv]
                    pos += nv
                    if pd['vkind'] == 'num':
                        lp.value = ('num', vt[0], pd['vpy'])
                    elif pd['vkind'] == 'str':
                        lp.value = ('str', vt[0], vt[1])
                    else:
                        lp.value = ('enum', vt[0])
                lps.append(lp)
            summ[name] = lps
            meta[name] = {'complete': d['complete'], 'secs': d['secs'], 'paths': len(lps), 'stats': d['stats']}
    return cat, summ, meta


# ------------------------------------------------------------------- model
class ReturnModel(object):
    def __init__(self, year, K, requested, opts=None, summaries=None, sopts=None):
        self.opts = opts or {}
        self.year = year
        self.K = K
        self.requested = list(requested)
        self.sopts = dict(sopts or {})
        self.relaxed = bool(self.sopts.get('relaxed', False))
        if summaries is None:
            summaries = load_summaries(year, K, self.sopts)
        self.cat, summ_all, self.meta = summaries
        self.summ = self._closure(summ_all)
        self.lines = sorted(self.summ)
        self.form_of = {n: n.split('.', 1)[0] for n in self.lines}
        self.forms = sorted(set(self.form_of.values()))
        self.dem = {n: tm.var('dem:' + n, 'B') for n in self.lines}
        self.ni = {n: tm.var('ni:' + n, 'B') for n in self.lines}
        self.err = {n: tm.var('err:' + n, 'B') for n in self.lines}
        self.blocked = {n: tm.var('blocked:' + n, 'B') for n in self.lines}
        self.inform = {f: tm.var('in:' + f, 'B') for f in self.forms}
        self.sel = {}
        self.lvar = {n: line_var(self.cat, self.cat.field(n), self.relaxed) for n in self.lines}
        self.constraints = []
        self.incomplete = []
        self._build()

    def _closure(self, summ_all):
        for f in self.requested:
            self.cat.form(f)    # raises UnknownForm for a form that does not exist

        """Lines that can possibly be demanded from the requested forms (over
        all paths): keeps the model small; undemandable lines are irrelevant."""
        keep = {}
        forms_in = set()
        work = []

        def add_form(f):
            if f in forms_in:
                return
            forms_in.add(f)
            try:
                fo = self.cat.form(f)
            except summary.UnknownForm:
                return
            for fld in fo.required_fields():
                if fld.name() in summ_all and fld.name() not in keep:
                    keep[fld.name()] = summ_all[fld.name()]
                    work.append(fld.name())
        for f in self.requested:
            add_form(f)
        while work:
            n = work.pop()
            for p in summ_all[n]:
                for kind, name, _idx in p.reads:
                    if kind == 'read_line' and name in summ_all:
                        add_form(name.split('.', 1)[0])
                        if name not in keep:
                            keep[name] = summ_all[name]
                            work.append(name)
        return keep

    def _build(self):
        C = self.constraints
        readers = {n: [] for n in self.lines}       # line -> [att terms]
        form_readers = {f: [] for f in self.forms}
        required = set()
        for f in self.forms:
            for fld in self.cat.form(f).required_fields():
                required.add(fld.name())
        self.required = required
        self.outside_reads = set()
        self.reader_dbg = {}
        self.valued = {n: tm.var('valued:' + n, 'B') for n in self.lines}
        enc = self.opts.get('encoding', 'eq')
        natt = 0
        seen_assume = set()
        for n in self.lines:
            for p in self.summ[n]:
                for a_ in p.assumes:
                    if id(a_) not in seen_assume:
                        seen_assume.add(id(a_))
                        C.append(a_)
        for n in self.lines:
            sels, vals, nis, errs = [], [], [], []
            if not self.meta[n]['complete']:
                self.incomplete.append(n)
            for k, p in enumerate(self.summ[n]):
                if p.kind in ('cut',):
                    self.incomplete.append(n + ' (cut: %s)' % p.detail)
                    continue
                s = tm.var('sel:%s#%d' % (n, k), 'B')
                self.sel[(n, k)] = s
                # walk the path: attempts reach successive reads
                prefix = [self.dem[n]]
                done = 0
                dead = False
                for kind, name, idx in p.reads:
                    if kind != 'read_line':
                        continue
                    if name not in readers:
                        if name.split('.', 1)[0] in self.forms or ':' in name:
                            self.outside_reads.add(name)
                            dead = True
                            break
                        continue
                    if name == n:
                        continue
                    prefix.extend(p.conds[done:idx])
                    done = idx
                    att = tm.and_(*prefix)
                    readers[name].append(att)
                    self.reader_dbg.setdefault(name, []).append((n, k, att))
                    if self.form_of[name] != self.form_of[n]:
                        form_readers[self.form_of[name]].append((att, self.form_of[n]))
                    prefix.append(self.valued[name])
                if dead:
                    C.append(tm.not_(s))
                    continue
                sels.append(s)
                full = tm.and_(*(prefix + list(p.conds[done:])))
                if enc == 'eq':
                    C.append(tm.eq(s, full))
                else:
                    C.append(tm.implies(s, full))
                if p.kind == 'value':
                    C.append(tm.implies(s, out_eq(self.lvar[n], p.value)))
                    vals.append(s)
                elif p.kind == 'not_implemented':
                    nis.append(s)
                else:
                    errs.append(s)
            C.append(tm.eq(self.blocked[n], tm.and_(self.dem[n], *[tm.not_(x) for x in sels])))
            C.append(tm.eq(self.valued[n], tm.or_(*vals) if vals else tm.FALSE))
            C.append(tm.eq(self.ni[n], tm.or_(*nis) if nis else tm.FALSE))
            C.append(tm.eq(self.err[n], tm.or_(*errs) if errs else tm.FALSE))
        def uniq(xs):
            seen, out = set(), []
            for x in xs:
                if id(x) not in seen:
                    seen.add(id(x))
                    out.append(x)
            return out
        exact = self.opts.get('exact_demand', True)
        for n in self.lines:
            srcs = uniq(readers[n])
            if n in required:
                srcs.append(self.inform[self.form_of[n]])
            d = tm.or_(*srcs) if srcs else tm.FALSE
            C.append(tm.eq(self.dem[n], d) if exact else tm.implies(d, self.dem[n]))
        # forms: least fixed point enforced with levels (a form is pulled in by a
        # line of a form that was in strictly earlier), which rules out
        # self-supporting cycles  in[G] <- line of F <- line of G <- in[G]
        self.level = {f: tm.var('lvl:' + f, 'I') for f in self.forms}
        nf = len(self.forms)
        for f in self.forms:
            C.append(tm.and_(tm.le(tm.I(0), self.level[f]), tm.le(self.level[f], tm.I(nf))))
            seen_, forcing, justified = set(), [], []
            for att, rf in form_readers[f]:
                if (id(att), rf) in seen_:
                    continue
                seen_.add((id(att), rf))
                forcing.append(att)
                justified.append(tm.and_(att, tm.lt(self.level[rf], self.level[f])))
            if f in self.requested:
                C.append(self.inform[f])
                C.append(tm.eq(self.level[f], tm.I(0)))
            else:
                C.append(tm.implies(tm.or_(*forcing) if forcing else tm.FALSE, self.inform[f]))
                if exact:
                    C.append(tm.implies(self.inform[f], tm.or_(*justified) if justified else tm.FALSE))
        self.solved = tm.and_(*[tm.and_(tm.not_(self.ni[n]), tm.not_(self.err[n]), tm.not_(self.blocked[n])) for n in self.lines])

    def float_input_term(self, name):
        inp = self.cat.input(name)
        if self.sopts.get('cents') and 'pct' not in inp.base_name():
            return tm.div(tm.to_real(tm.var('i:' + name + '#k', 'I')), tm.R(100))
        return tm.var('i:' + name, 'R')

    def input_domains(self):
        """Global domain constraints of every input any line reads (the same
        bounds hv.summary.input_symbol assumes path-locally): the stated bound."""
        I = self.cat.hab_inputs
        S = self.sopts.get('S')
        nonneg = self.sopts.get('nonneg', False)
        cs = []
        counts = []
        for name in self.input_names():
            inp = self.cat.input(name)
            t = type(inp)
            vn = 'i:' + name
            if t is I.IntegerInput:
                v = tm.var(vn, 'I')
                if inp.base_name() == 'number_dependents':
                    lo, hi = 0, 5
                elif inp.base_name().startswith('number_'):
                    lo, hi = 0, self.K
                    counts.append(v)
                else:
                    lo, hi = (0 if nonneg else -summary.INT_BOUND), summary.INT_BOUND
                cs.append(tm.and_(tm.le(tm.I(lo), v), tm.le(v, tm.I(hi))))
            elif t is I.FloatInput:
                v = self.float_input_term(name)
                cs.append(tm.and_(tm.le(tm.R(0 if nonneg else -summary.MONEY_BOUND), v), tm.le(v, tm.R(summary.MONEY_BOUND))))
            elif t is I.EnumInput:
                v = tm.var(vn, 'I')
                cs.append(tm.and_(tm.le(tm.I(-1 if inp.allow_empty else 0), v), tm.le(v, tm.I(len(list(inp.enum)) - 1))))
            elif t in (I.SSNInput, I.RegexInput):
                cs.append(tm.not_(tm.var(vn + '#empty', 'B')))
        if S is not None and counts:
            acc = tm.I(0)
            for v in counts:
                acc = tm.add(acc, v)
            cs.append(tm.le(acc, tm.I(S)))
        return cs

    def only_abnormal(self, name):
        """No line other than `name` ends in an exception / unknown form (those
        abort the real solve, so a witness must not trip one first)."""
        return tm.and_(*[tm.not_(self.err[n]) for n in self.lines if n != name])

    def read_graph_cycles(self):
        g = {n: set() for n in self.lines}
        for n in self.lines:
            for p in self.summ[n]:
                for kind, name, _idx in p.reads:
                    if kind == 'read_line' and name in g:
                        g[n].add(name)
        # Tarjan-free: iterative DFS colouring
        WHITE, GREY, BLACK = 0, 1, 2
        col = {n: WHITE for n in g}
        cycles = []
        for root in g:
            if col[root] != WHITE:
                continue
            stack = [(root, iter(sorted(g[root])))]
            col[root] = GREY
            path = [root]
            while stack:
                node, it = stack[-1]
                nxt = next(it, None)
                if nxt is None:
                    col[node] = BLACK
                    stack.pop()
                    path.pop()
                    continue
                if col[nxt] == GREY:
                    cycles.append(path[path.index(nxt):] + [nxt])
                elif col[nxt] == WHITE:
                    col[nxt] = GREY
                    stack.append((nxt, iter(sorted(g[nxt]))))
                    path.append(nxt)
        return cycles

    def solver(self, timeout_ms=60000):
        s = z3.Solver()
        s.set('timeout', timeout_ms)
        for c in self.constraints:
            s.add(tm.to_z3(c))
        for c in self.input_domains():
            s.add(tm.to_z3(c))
        return s

    # -- witnesses ---------------------------------------------------------
    def input_names(self):
        names = set()
        for n in self.lines:
            for p in self.summ[n]:
                for kind, name, _idx in p.reads:
                    if kind == 'read_input':
                        names.add(name)
        return sorted(names)

    def grid_constraints(self, places=2):
        """Prefer witnesses whose float inputs are whole cents."""
        I = self.cat.hab_inputs
        cs = []
        for name in self.input_names():
            inp = self.cat.input(name)
            if type(inp) is I.FloatInput and not (self.sopts.get('cents') and 'pct' not in inp.base_name()):
                k = tm.var('grid:' + name, 'I')
                cs.append(tm.eq(tm.var('i:' + name, 'R'), tm.div(tm.to_real(k), tm.R(10 ** (places if 'pct' not in inp.base_name() else 4)))))
        return cs

    def extract_inputs(self, model):
        """z3 model -> {input name: text} for every input any line reads."""
        I = self.cat.hab_inputs
        out = {}
        tok = {}
        for name in self.input_names():
            inp = self.cat.input(name)
            t = type(inp)
            vn = 'i:' + name
            if t is I.BooleanInput:
                out[name] = 'yes' if tm.model_value(model, tm.var(vn, 'B')) else 'no'
            elif t is I.IntegerInput:
                out[name] = str(tm.model_value(model, tm.var(vn, 'I')))
            elif t is I.FloatInput:
                fr = tm.model_value(model, self.float_input_term(name))
                out[name] = frac_to_text(fr)
            elif t is I.EnumInput:
                k = tm.model_value(model, tm.var(vn, 'I'))
                members = list(inp.enum)
                out[name] = '' if k < 0 or k >= len(members) else members[k].name
            elif t is I.SSNInput:
                out[name] = '123-45-6789'
            elif t is I.RegexInput:
                out[name] = '011000015' if 'routing' in name else '12345'
            else:
                empty = tm.model_value(model, tm.var(vn + '#empty', 'B'))
                if empty:
                    out[name] = ''
                else:
                    ident = tm.model_value(model, tm.var(vn + '#id', 'I'))
                    out[name] = tok.setdefault(ident, 'T%d' % len(tok))
        return out


def frac_to_text(fr):
    fr = Fraction(fr)
    # exact decimal if terminating within 12 places, else repr of the float
    for p in range(0, 13):
        scaled = fr * 10 ** p
        if scaled.denominator == 1:
            s = '%d' % abs(scaled.numerator)
            s = s.rjust(p + 1, '0')
            txt = (s[:-p] + '.' + s[-p:]) if p else s
            return ('-' if fr < 0 else '') + txt
    return repr(fr.numerator / fr.denominator)


def _parse_get_value(text):
    """'((|a| 1) (b (- 2)) (c (/ 1 3)) (d true))' -> {name: bool|Fraction}"""
    toks = re.findall(r'\|[^|]*\||[()]|[^\s()]+', text)
    pos = [0]

    def rd():
        t = toks[pos[0]]
        pos[0] += 1
        if t == '(':
            lst = []
            while toks[pos[0]] != ')':
                lst.append(rd())
            pos[0] += 1
            return lst
        return t

    def ev(x):
        if isinstance(x, list):
            if x[0] == '-' and len(x) == 2:
                return -ev(x[1])
            if x[0] == '/':
                return Fraction(ev(x[1])) / Fraction(ev(x[2]))
            raise ValueError(x)
        if x == 'true':
            return True
        if x == 'false':
            return False
        return Fraction(x)
    out = {}
    if not toks:
        return out
    for pair in rd():
        try:
            out[pair[0].strip('|')] = ev(pair[1])
        except (ValueError, IndexError, ZeroDivisionError):
            pass
    return out


class _Raw(object):
    """a term already over the relaxed variables"""
    def __init__(self, t):
        self.t = t


class Lifter(object):
    """Finds concrete inputs for a whole-return condition (one incremental
    solver per requested form set).

    Line value variables are declared Real instead of Int-on-the-cent-grid:
    float inputs are whole cents (Int, stated bound) and every rounding result
    is an Int grid point, so the value of every *valued* line is on its grid by
    construction (all other operations preserve the grid, see
    terms.grid_places); dropping the redundant integrality of ~450 line
    variables is what makes z3 answer in well under a second."""

    def __init__(self, year, K, S, requested, ft='uf', nonneg=False, timeout_ms=60000, opts=None):
        self.year, self.K, self.S, self.requested = year, K, S, list(requested)
        self.so = {'S': S, 'ft': ft, 'cents': True}
        if nonneg:
            self.so['nonneg'] = True
        self.rm = ReturnModel(year, K, requested, sopts=self.so, opts=opts)
        rm = self.rm
        names = {}
        for c in rm.constraints:
            tm.free_vars(c, names)
        self.rmap = {n: tm.var(n + '~r', 'R') for n, srt in names.items() if srt == 'I' and n.startswith('v:') and n.endswith('#k')}
        self.s = z3.Solver()
        self.s.set('timeout', timeout_ms)
        for c in rm.constraints + rm.input_domains():
            self.s.add(self.z(c))
        self.stats = {'queries': 0, 'sat': 0, 'unsat': 0, 'unknown': 0, 'secs': 0.0}
        self.timeout_ms = timeout_ms
        self.retries = 1
        self.use_cvc5 = os.environ.get('HV_NO_CVC5') != '1'

    def rx(self, t):
        return tm.subst(t, self.rmap) if self.rmap else t

    def _cvc5(self, extra):
        """The same query (z3's SMT-LIB2 dump of it) decided by the cvc5 binary.
        unsat is taken as the verdict; for sat the input values cvc5 reports are
        pinned in z3, whose model of the pinned query is returned (so a cvc5
        model z3 does not accept stays 'unknown')."""
        exe = shutil.which('cvc5')
        if not exe:
            return 'unknown', None
        t0 = time.time()
        s2 = z3.Solver()
        for c in self.rm.constraints + self.rm.input_domains() + list(extra):
            s2.add(self.z(c))
        text = s2.to_smt2()
        decls = re.findall(r'\(declare-fun (\|[^|]*\||\S+) \(\) (\w+)\)', text)
        ivars = [(n, srt) for n, srt in decls if n.strip('|').startswith('i:')]
        text = '(set-option :produce-models true)\n(set-logic ALL)\n' + text + '(get-value (%s))\n' % ' '.join(n for n, _ in ivars)
        fd, path = tempfile.mkstemp(suffix='.smt2', prefix='hv_cvc5_')
        try:
            with os.fdopen(fd, 'w') as f:
                f.write(text)
            try:
                p = subprocess.run([exe, '--tlimit=%d' % (2 * self.timeout_ms), path], capture_output=True, text=True, timeout=2 * self.timeout_ms / 1000.0 + 30)
                out = p.stdout
            except subprocess.TimeoutExpired:
                out = ''
        finally:
            os.unlink(path)
        self.stats['cvc5_queries'] = self.stats.get('cvc5_queries', 0) + 1
        self.stats['cvc5_secs'] = self.stats.get('cvc5_secs', 0.0) + time.time() - t0
        first = out.split('\n', 1)[0].strip()
        if '(error' in out or first not in ('sat', 'unsat'):
            return 'unknown', None
        if first == 'unsat':
            self.stats['cvc5_unsat'] = self.stats.get('cvc5_unsat', 0) + 1
            return 'unsat', None
        vals = _parse_get_value(out.split('\n', 1)[1])
        pins = []
        for n, srt in ivars:
            nm = n.strip('|')
            if nm not in vals:
                continue
            v = vals[nm]
            if srt == 'Bool':
                pins.append(tm.var(nm, 'B') if v else tm.not_(tm.var(nm, 'B')))
            elif srt == 'Int':
                pins.append(tm.eq(tm.var(nm, 'I'), tm.I(int(v))))
            else:
                pins.append(tm.eq(tm.var(nm, 'R'), tm.R(Fraction(v))))
        s3 = z3.Solver()
        s3.set('timeout', self.timeout_ms)
        for c in self.rm.constraints + self.rm.input_domains() + list(extra) + pins:
            s3.add(self.z(c))
        r = str(s3.check())
        if r == 'sat':
            self.stats['cvc5_sat'] = self.stats.get('cvc5_sat', 0) + 1
            return 'sat', s3.model()
        self.stats['cvc5_model_rejected'] = self.stats.get('cvc5_model_rejected', 0) + 1
        return 'unknown', None

    def z(self, t):
        if isinstance(t, _Raw):
            return tm.to_z3(t.t)
        return tm.to_z3(self.rx(t))

    def mv(self, model, t):
        return tm.model_value(model, self.rx(t))

    def integral(self, lines):
        """Partial un-relaxation: the grid counters of the named lines are
        integers again (they are in the exact model; the Lifter only drops that
        fact for speed), as extra constraints for one query."""
        out = []
        for n in lines:
            x = self.rmap.get('v:%s#k' % n)
            if x is not None:
                out.append(_Raw(tm.eq(tm.to_real(tm.floor(x)), x)))
        return out

    def cone(self, line, depth=2):
        """the line and the lines its definition reads, transitively to `depth`"""
        seen = {line}
        frontier = [line]
        for _ in range(depth):
            nxt = []
            for n in frontier:
                for p in self.rm.summ.get(n, ()):
                    for r in (p.reads or ()):
                        if not isinstance(r, str):
                            if r[0] != 'read_line':
                                continue
                            r = r[1]
                        if r not in seen:
                            seen.add(r)
                            nxt.append(r)
            frontier = nxt
        return sorted(seen)

    def query(self, extra, want_inputs=True):
        """extra: list of terms over the model's variables.
        Returns (result, inputs|None, model)."""
        t0 = time.time()
        self.stats['queries'] += 1
        s = self.s
        s.push()
        try:
            for c in extra:
                s.add(self.z(c))
            r = str(s.check())
            m = s.model() if r == 'sat' else None
            if r == 'unknown' and self.use_cvc5:
                # second engine: cvc5 decides many whole-return queries z3 times out on
                r, m = self._cvc5(list(extra))
            seed = 0
            while r == 'unknown' and seed < self.retries:
                # z3's incremental state sometimes wanders: retry on a fresh solver / other seed
                seed += 1
                s2 = z3.Solver()
                s2.set('timeout', self.timeout_ms)
                s2.set('random_seed', seed * 7919)
                for c in self.rm.constraints + self.rm.input_domains() + list(extra):
                    s2.add(self.z(c))
                r = str(s2.check())
                m = s2.model() if r == 'sat' else None
                self.stats['retries'] = self.stats.get('retries', 0) + 1
            self.stats[r] += 1
            if r != 'sat':
                return r, None, None
            return 'sat', (self.rm.extract_inputs(m) if want_inputs else None), m
        finally:
            s.pop()
            self.stats['secs'] += time.time() - t0
