"""Verdict protocol, evidence writer, replay plumbing (DESIGN.md 8)."""
import json
import os
import subprocess
import sys
import time

VERIF = os.path.dirname(os.path.dirname(os.path.abspath(__file__)))
REPO = os.environ.get('HV_REPO', '/repo')
REAL_PY = os.environ.get('HV_REAL_PY', '/venv/bin/python')
EXIT_OK, EXIT_VIOLATION, EXIT_HARNESS = 0, 1, 2


def known_findings():
    p = os.path.join(VERIF, 'known_findings.json')
    if not os.path.exists(p):
        return {}
    with open(p) as f:
        data = json.load(f)
    out = {}
    for e in data.get('findings', []):
        out[(e['property'], e['key'])] = e
    return out


class Check(object):
    """Collects obligations, violations and coverage of one check run."""

    def __init__(self, pid, tier, technique, functions):
        self.pid = pid
        self.tier = tier
        self.seed = int(os.environ.get('VERIF_SEED', '0') or 0)
        self.t0 = time.time()
        self.technique = technique
        self.functions = list(functions)
        self.obligations = 0
        self.discharged = 0
        self.unknown = 0
        self.sat = 0
        self.solver_s = 0.0
        self.paths = 0
        self.violations = []     # dict(key, what, replay)
        self.inconclusive = []   # str
        self.samples = []
        self.bounds = {}
        self.outside = []
        self.stubs = []
        self.assumptions = []
        self.extra = {}
        self.distinct = set()
        self.notes = []
        self.replays_run = 0
        self.spurious = 0

    # -- bookkeeping -----------------------------------------------------
    def obligation(self, name, result, secs=0.0, sample=None, nontrivial_key=None):
        """result: 'unsat' (discharged) | 'sat' | 'unknown'"""
        self.obligations += 1
        self.solver_s += secs
        if result == 'unsat':
            self.discharged += 1
        elif result == 'sat':
            self.sat += 1
        else:
            self.unknown += 1
            self.inconclusive.append(name)
        self.distinct.add(nontrivial_key if nontrivial_key is not None else name)
        if sample is not None and len(self.samples) < 12:
            self.samples.append(sample)

    def violation(self, key, what, replay):
        self.violations.append({'key': key, 'what': what, 'replay': replay})

    def add_stats(self, ex):
        self.paths += ex.stats['paths']
        self.solver_s += ex.stats['solver_s']

    # -- finish ----------------------------------------------------------
    def finish(self):
        kf = known_findings()
        os.makedirs(os.path.join(VERIF, 'evidence'), exist_ok=True)
        os.makedirs(os.path.join(VERIF, 'replays', self.pid), exist_ok=True)
        new = []
        known_hit = []
        seen_keys = set()
        for v in self.violations:
            if v['key'] in seen_keys:
                continue
            seen_keys.add(v['key'])
            e = kf.get((self.pid, v['key']))
            if e is not None and e.get('status') == 'known':
                known_hit.append((v, e))
            else:
                new.append(v)
        for v, e in known_hit:
            print('KNOWN-FINDING: property=%s %s %s' % (self.pid, v['key'], v['what']))
        for name in self.inconclusive[:50]:
            print('INCONCLUSIVE property=%s %s' % (self.pid, name))
        for v in new:
            safe = ''.join(c if c.isalnum() or c in '-_.' else '_' for c in v['key'])[:120]
            path = os.path.join(VERIF, 'replays', self.pid, safe + '.json')
            with open(path, 'w') as f:
                json.dump({'property': self.pid, 'key': v['key'], 'what': v['what'], 'replay': v['replay']}, f, indent=1, default=str)
            print('VIOLATION property=%s replay=%s' % (self.pid, path))
            print('  ' + v['what'])
        wall = time.time() - self.t0
        cov = {
            'explanation': self.technique,
            'functions_encoded': self.functions,
            'bounds': self.bounds,
            'outside_bounds': self.outside,
            'stubs': self.stubs,
            'paths_explored': self.paths,
            'obligations': self.obligations,
            'discharged': self.discharged,
            'sat': self.sat,
            'unknown': self.unknown,
            'solver_s': round(self.solver_s, 3),
            'evaluations': max(1, self.paths + self.obligations),
            'distinct_nontrivial': len(self.distinct),
            'rule': 'one evaluation = one feasible path of the real code explored symbolically or one SMT obligation over it; distinct_nontrivial counts distinct obligations (by name) whose query mentions at least one symbolic variable',
            'samples': self.samples or ['(none)'],
            'exhaustive': False,
            'inconclusive': self.inconclusive[:200],
            'known_findings_reproduced': [v['key'] for v, _ in known_hit],
            'replays_run': self.replays_run,
            'spurious_witnesses_dropped': self.spurious,
            'checker_cmd': './check %s --tier %s' % (self.pid, self.tier),
            'trusted_base': ['z3 5.1', 'cvc5 1.0.3 binary (second engine for whole-return queries z3 leaves unknown; its sat models are re-checked by z3 and replayed)', 'CPython semantics of un-instrumented code', 'hv.instrument (validated by repo tests)', 'oracle files under /verif/oracle'],
        }
        cov.update(self.extra)
        ev = {
            'property_id': self.pid,
            'tier': self.tier,
            'seed': self.seed,
            'level': 'other',
            'coverage': cov,
            'assumptions': self.assumptions,
            'wall_s': round(wall, 2),
            'violations': len(new),
            'notes': self.notes,
        }
        with open(os.path.join(VERIF, 'evidence', self.pid + '.json'), 'w') as f:
            json.dump(ev, f, indent=1, default=str)
        print('%s tier=%s paths=%d obligations=%d discharged=%d sat=%d unknown=%d known=%d new_violations=%d solver=%.1fs wall=%.1fs' % (
            self.pid, self.tier, self.paths, self.obligations, self.discharged, self.sat, self.unknown, len(known_hit), len(new), self.solver_s, wall))
        return EXIT_VIOLATION if new else EXIT_OK


def run_real(script_args, stdin_obj=None, timeout=600):
    """Run hv/replay_real.py under the repo's own interpreter against the
    UNINSTRUMENTED code.  Returns parsed JSON from stdout."""
    cmd = [REAL_PY, os.path.join(VERIF, 'hv', 'replay_real.py')] + list(script_args)
    env = dict(os.environ)
    env['PYTHONPATH'] = REPO
    env['PYTHONDONTWRITEBYTECODE'] = '1'
    p = subprocess.run(cmd, input=json.dumps(stdin_obj) if stdin_obj is not None else None, capture_output=True, text=True, timeout=timeout, env=env, cwd=REPO)
    if p.returncode != 0:
        raise RuntimeError('replay_real failed: rc=%s\n%s\n%s' % (p.returncode, p.stdout[-2000:], p.stderr[-4000:]))
    return json.loads(p.stdout)


def pmap(fn, items, procs=None):
    """Process-parallel map (fork), results in order."""
    import multiprocessing as mp
    procs = procs or min(len(items), int(os.environ.get('HV_PROCS', '16')))
    if procs <= 1 or len(items) <= 1:
        return [fn(x) for x in items]
    ctx = mp.get_context('fork')
    with ctx.Pool(procs) as pool:
        return pool.map(fn, items, chunksize=1)
