"""Hash-consed term DAG with constant folding and lazy conversion to z3.

Sorts: 'B' Bool, 'I' Int (mathematical, as Python's int), 'R' Real (exact
rationals standing in for money floats, see DESIGN.md 3.3).

Terms are built by the proxies in hv.symx while the *real* habutax code runs;
they are cheap Python objects so that re-executing a path prefix costs no
solver work.  Conversion to z3 is memoised per term.
"""
from fractions import Fraction
import z3

_table = {}


class T(object):
    __slots__ = ('op', 'args', 'sort', 'val', '_z', '__weakref__')

    def __init__(self, op, args, sort, val=None):
        self.op = op
        self.args = args
        self.sort = sort
        self.val = val
        self._z = None

    def is_const(self):
        return self.op == 'const'

    def __repr__(self):
        return show(self)


def _mk(op, args, sort, val=None):
    n = len(args)
    if n == 2:
        key = (op, sort, id(args[0]), id(args[1]))
    elif n == 0:
        key = (op, sort, val)
    elif n == 1:
        key = (op, sort, id(args[0]))
    else:
        key = (op, sort) + tuple(id(a) for a in args)
    t = _table.get(key)
    if t is None:
        t = T(op, args, sort, val)
        _table[key] = t
    return t


def reset_table():
    _table.clear()


# ---------------------------------------------------------------- constants
def B(v):
    return _mk('const', (), 'B', bool(v))


def I(v):
    return _mk('const', (), 'I', int(v))


def R(v):
    if isinstance(v, float):
        v = Fraction(repr(v))
    elif not isinstance(v, Fraction):
        v = Fraction(v)
    return _mk('const', (), 'R', v)


TRUE = B(True)
FALSE = B(False)


def var(name, sort):
    return _mk('var', (), sort, name)


def uf(name, args, sort):
    """Uninterpreted function application (EUF)."""
    return _mk('uf:' + name, tuple(args), sort)


# --------------------------------------------------------------- arithmetic
def to_real(a):
    if a.sort == 'R':
        return a
    if a.sort == 'B':
        a = ite(a, I(1), I(0))
    if a.is_const():
        return R(Fraction(a.val))
    return _mk('toreal', (a,), 'R')


def to_int_of_bool(a):
    if a.sort == 'B':
        return ite(a, I(1), I(0))
    return a


def _coerce(a, b):
    sa = a.sort
    if sa == b.sort and sa != 'B':
        return a, b
    a = to_int_of_bool(a)
    b = to_int_of_bool(b)
    if a.sort != b.sort:
        a, b = to_real(a), to_real(b)
    return a, b


def _c(sort, v):
    return I(v) if sort == 'I' else R(v)


def add(a, b):
    a, b = _coerce(a, b)
    if a.is_const() and b.is_const():
        return _c(a.sort, a.val + b.val)
    if a.is_const() and a.val == 0:
        return b
    if b.is_const() and b.val == 0:
        return a
    return _mk('add', (a, b), a.sort)


def sub(a, b):
    a, b = _coerce(a, b)
    if a.is_const() and b.is_const():
        return _c(a.sort, a.val - b.val)
    if b.is_const() and b.val == 0:
        return a
    if a is b:
        return _c(a.sort, 0)
    return _mk('sub', (a, b), a.sort)


def neg(a):
    a = to_int_of_bool(a)
    if a.is_const():
        return _c(a.sort, -a.val)
    return _mk('neg', (a,), a.sort)


def mul(a, b):
    a, b = _coerce(a, b)
    if a.is_const() and b.is_const():
        return _c(a.sort, a.val * b.val)
    if a.is_const() and a.val == 1:
        return b
    if b.is_const() and b.val == 1:
        return a
    if (a.is_const() and a.val == 0) or (b.is_const() and b.val == 0):
        return _c(a.sort, 0)
    return _mk('mul', (a, b), a.sort)


def div(a, b):
    """True division; result Real."""
    a, b = to_real(to_int_of_bool(a)), to_real(to_int_of_bool(b))
    if a.is_const() and b.is_const() and b.val != 0:
        return R(a.val / b.val)
    if b.is_const() and b.val == 1:
        return a
    return _mk('div', (a, b), 'R')


def floor(a):
    """Real -> Int floor."""
    if a.sort == 'I':
        return a
    if a.is_const():
        return I(a.val.numerator // a.val.denominator)
    return _mk('floor', (a,), 'I')


def idiv(a, b):
    """Python floor division on Ints."""
    assert a.sort == 'I' and b.sort == 'I'
    if a.is_const() and b.is_const() and b.val != 0:
        return I(a.val // b.val)
    return _mk('idiv', (a, b), 'I')


def imod(a, b):
    assert a.sort == 'I' and b.sort == 'I'
    if a.is_const() and b.is_const() and b.val != 0:
        return I(a.val % b.val)
    return _mk('imod', (a, b), 'I')


# --------------------------------------------------------------- comparison
def lt(a, b):
    a, b = _coerce(a, b)
    if a.is_const() and b.is_const():
        return B(a.val < b.val)
    if a is b:
        return FALSE
    return _mk('lt', (a, b), 'B')


def le(a, b):
    a, b = _coerce(a, b)
    if a.is_const() and b.is_const():
        return B(a.val <= b.val)
    if a is b:
        return TRUE
    return _mk('le', (a, b), 'B')


def eq(a, b):
    if a.sort == 'B' and b.sort == 'B':
        if a.is_const() and b.is_const():
            return B(a.val == b.val)
        if a is b:
            return TRUE
        if b.is_const():
            return a if b.val else not_(a)
        if a.is_const():
            return b if a.val else not_(b)
        return _mk('eq', (a, b), 'B')
    a, b = _coerce(a, b)
    if a.is_const() and b.is_const():
        return B(a.val == b.val)
    if a is b:
        return TRUE
    return _mk('eq', (a, b), 'B')


def ne(a, b):
    return not_(eq(a, b))


# ------------------------------------------------------------------ boolean
def not_(a):
    assert a.sort == 'B', a
    if a.is_const():
        return B(not a.val)
    if a.op == 'not':
        return a.args[0]
    return _mk('not', (a,), 'B')


def and_(*xs):
    out = []
    for x in xs:
        assert x.sort == 'B', x
        if x.is_const():
            if not x.val:
                return FALSE
            continue
        if x.op == 'and':
            out.extend(x.args)
        else:
            out.append(x)
    seen = []
    for x in out:
        if not any(x is y for y in seen):
            seen.append(x)
    if not seen:
        return TRUE
    if len(seen) == 1:
        return seen[0]
    return _mk('and', tuple(seen), 'B')


def or_(*xs):
    out = []
    for x in xs:
        assert x.sort == 'B', x
        if x.is_const():
            if x.val:
                return TRUE
            continue
        if x.op == 'or':
            out.extend(x.args)
        else:
            out.append(x)
    seen = []
    for x in out:
        if not any(x is y for y in seen):
            seen.append(x)
    if not seen:
        return FALSE
    if len(seen) == 1:
        return seen[0]
    return _mk('or', tuple(seen), 'B')


def implies(a, b):
    return or_(not_(a), b)


def ite(c, a, b):
    assert c.sort == 'B'
    if a.sort != b.sort:
        if a.sort == 'B' or b.sort == 'B':
            a, b = to_int_of_bool(a), to_int_of_bool(b)
        if a.sort != b.sort:
            a, b = to_real(a), to_real(b)
    if c.is_const():
        return a if c.val else b
    if a is b:
        return a
    if a.sort == 'B':
        if a.is_const() and b.is_const():
            return c if a.val else not_(c)
    return _mk('ite', (c, a, b), a.sort)


def min_(a, b):
    a, b = _coerce(a, b)
    return ite(le(a, b), a, b)


def max_(a, b):
    a, b = _coerce(a, b)
    return ite(le(b, a), a, b)


def abs_(a):
    return ite(lt(a, _c(a.sort, 0)), neg(a), a)


# ------------------------------------------------------------------- z3
_zvars = {}
_zfuncs = {}


def _zsort(s):
    return {'B': z3.BoolSort(), 'I': z3.IntSort(), 'R': z3.RealSort()}[s]


def zvar(name, sort):
    k = (name, sort)
    v = _zvars.get(k)
    if v is None:
        v = z3.Const(name, _zsort(sort))
        _zvars[k] = v
    return v


def to_z3(t):
    """Iterative post-order conversion with memo on the term."""
    if t._z is not None:
        return t._z
    stack = [t]
    while stack:
        x = stack[-1]
        if x._z is not None:
            stack.pop()
            continue
        pending = [a for a in x.args if isinstance(a, T) and a._z is None]
        if pending:
            stack.extend(pending)
            continue
        x._z = _conv(x)
        stack.pop()
    return t._z


def _conv(x):
    op = x.op
    a = [y._z if isinstance(y, T) else y for y in x.args]
    if op == 'const':
        if x.sort == 'B':
            return z3.BoolVal(x.val)
        if x.sort == 'I':
            return z3.IntVal(x.val)
        return z3.RealVal(str(x.val))
    if op == 'var':
        return zvar(x.val, x.sort)
    if op == 'add':
        return a[0] + a[1]
    if op == 'sub':
        return a[0] - a[1]
    if op == 'neg':
        return -a[0]
    if op == 'mul':
        return a[0] * a[1]
    if op == 'div':
        return a[0] / a[1]
    if op == 'toreal':
        return z3.ToReal(a[0])
    if op == 'floor':
        return z3.ToInt(a[0])
    if op == 'idiv':
        return _py_floordiv(a[0], a[1])
    if op == 'imod':
        return a[0] - a[1] * _py_floordiv(a[0], a[1])
    if op == 'lt':
        return a[0] < a[1]
    if op == 'le':
        return a[0] <= a[1]
    if op == 'eq':
        return a[0] == a[1]
    if op == 'not':
        return z3.Not(a[0])
    if op == 'and':
        return z3.And(*a)
    if op == 'or':
        return z3.Or(*a)
    if op == 'ite':
        return z3.If(a[0], a[1], a[2])
    if op.startswith('uf:'):
        name = op[3:]
        sig = (name, tuple(y.sort for y in x.args), x.sort)
        f = _zfuncs.get(sig)
        if f is None:
            f = z3.Function(name, *([_zsort(y.sort) for y in x.args] + [_zsort(x.sort)]))
            _zfuncs[sig] = f
        return f(*a) if a else f()
    raise ValueError('unknown op ' + op)


def _py_floordiv(a, b):
    # z3 integer division is Euclidean (remainder non-negative): it equals
    # floor(a/b) for b > 0 and ceil(a/b) for b < 0.  Python floors.
    q = a / b
    return z3.If(b > 0, q, z3.If(a == b * q, q, q - 1))


# ------------------------------------------------------------------- eval
def evaluate(t, env):
    """Evaluate under env: name -> python value (bool/int/Fraction).  Used to
    cross-check proxies against CPython in the self-test and to evaluate
    witnesses."""
    memo = {}

    def ev(x):
        k = id(x)
        if k in memo:
            return memo[k]
        op = x.op
        if op == 'const':
            r = x.val
        elif op == 'var':
            r = env[x.val]
            if x.sort == 'R':
                r = Fraction(r)
        else:
            a = [ev(y) if isinstance(y, T) else y for y in x.args]
            if op == 'add':
                r = a[0] + a[1]
            elif op == 'sub':
                r = a[0] - a[1]
            elif op == 'neg':
                r = -a[0]
            elif op == 'mul':
                r = a[0] * a[1]
            elif op == 'div':
                r = Fraction(a[0]) / Fraction(a[1])
            elif op == 'toreal':
                r = Fraction(a[0])
            elif op == 'floor':
                r = a[0].numerator // a[0].denominator if isinstance(a[0], Fraction) else int(a[0])
            elif op == 'idiv':
                r = a[0] // a[1]
            elif op == 'imod':
                r = a[0] % a[1]
            elif op == 'lt':
                r = a[0] < a[1]
            elif op == 'le':
                r = a[0] <= a[1]
            elif op == 'eq':
                r = a[0] == a[1]
            elif op == 'not':
                r = not a[0]
            elif op == 'and':
                r = all(a)
            elif op == 'or':
                r = any(a)
            elif op == 'ite':
                r = a[1] if a[0] else a[2]
            else:
                raise ValueError('cannot evaluate ' + op)
        memo[k] = r
        return r
    return ev(t)


def show(t, depth=6):
    if t.op == 'const':
        if t.sort == 'R':
            v = t.val
            return str(v.numerator) if v.denominator == 1 else '%s' % float(v)
        return str(t.val)
    if t.op == 'var':
        return str(t.val)
    if depth <= 0:
        return '…'
    a = [show(x, depth - 1) if isinstance(x, T) else str(x) for x in t.args]
    sym = {'add': '+', 'sub': '-', 'mul': '*', 'div': '/', 'lt': '<', 'le': '<=', 'eq': '=='}
    if t.op in sym:
        return '(%s %s %s)' % (a[0], sym[t.op], a[1])
    if t.op == 'and':
        return '(' + ' & '.join(a) + ')'
    if t.op == 'or':
        return '(' + ' | '.join(a) + ')'
    if t.op == 'not':
        return '!' + a[0]
    if t.op == 'ite':
        return '(%s ? %s : %s)' % tuple(a)
    return '%s(%s)' % (t.op, ', '.join(a))


def free_vars(t, acc=None):
    if acc is None:
        acc = {}
    seen = set()
    stack = [t]
    while stack:
        x = stack.pop()
        if id(x) in seen:
            continue
        seen.add(id(x))
        if x.op == 'var':
            acc[x.val] = x.sort
        for y in x.args:
            if isinstance(y, T):
                stack.append(y)
    return acc


def subst(t, mapping):
    """Replace variables by name: mapping name -> T."""
    memo = {}

    def go(x):
        k = id(x)
        if k in memo:
            return memo[k]
        if x.op == 'var':
            r = mapping.get(x.val, x)
        elif x.op == 'const':
            r = x
        else:
            a = [go(y) if isinstance(y, T) else y for y in x.args]
            r = rebuild(x, a)
        memo[k] = r
        return r
    return go(t)


def rebuild(x, a):
    op = x.op
    if op == 'add':
        return add(*a)
    if op == 'sub':
        return sub(*a)
    if op == 'neg':
        return neg(*a)
    if op == 'mul':
        return mul(*a)
    if op == 'div':
        return div(*a)
    if op == 'toreal':
        return to_real(*a)
    if op == 'floor':
        return floor(*a)
    if op == 'idiv':
        return idiv(*a)
    if op == 'imod':
        return imod(*a)
    if op == 'lt':
        return lt(*a)
    if op == 'le':
        return le(*a)
    if op == 'eq':
        return eq(*a)
    if op == 'not':
        return not_(*a)
    if op == 'and':
        return and_(*a)
    if op == 'or':
        return or_(*a)
    if op == 'ite':
        return ite(*a)
    if op.startswith('uf:'):
        return uf(op[3:], a, x.sort)
    raise ValueError(op)


def model_value(model, t):
    """Python value of term t in a z3 model (Fraction / int / bool)."""
    v = model.eval(to_z3(t), model_completion=True)
    if t.sort == 'B':
        return z3.is_true(v)
    if t.sort == 'I':
        return v.as_long()
    if z3.is_rational_value(v):
        return Fraction(v.numerator_as_long(), v.denominator_as_long())
    if z3.is_algebraic_value(v):
        return Fraction(str(v.approx(20).as_fraction()))
    return Fraction(str(v))


def fold_bounds(conjuncts):
    """Drop redundant one-sided bounds (term vs constant) from a conjunction:
    keeps the tightest lower and upper bound per term.  Logically equivalent
    to the input conjunction."""
    lower = {}   # id(term) -> (term, value, strict)
    upper = {}
    rest = []
    for c in conjuncts:
        neg = False
        a = c
        if a.op == 'not':
            neg = True
            a = a.args[0]
        if a.op in ('lt', 'le') and (a.args[0].is_const() != a.args[1].is_const()):
            l, r = a.args
            strict = a.op == 'lt'
            if neg:          # not (l < r)  ==  r <= l ;  not (l <= r) == r < l
                l, r = r, l
                strict = not strict
            # now: l (< or <=) r
            if l.is_const():     # const < term : lower bound on term
                t, v = r, l.val
                cur_ = lower.get(id(t))
                if cur_ is None or v > cur_[1] or (v == cur_[1] and strict and not cur_[2]):
                    lower[id(t)] = (t, v, strict)
            else:                # term < const : upper bound
                t, v = l, r.val
                cur_ = upper.get(id(t))
                if cur_ is None or v < cur_[1] or (v == cur_[1] and strict and not cur_[2]):
                    upper[id(t)] = (t, v, strict)
        else:
            rest.append(c)
    out = []
    for t, v, strict in lower.values():
        k = _c(t.sort, v)
        out.append(lt(k, t) if strict else le(k, t))
    for t, v, strict in upper.values():
        k = _c(t.sort, v)
        out.append(lt(t, k) if strict else le(t, k))
    return out + rest


# ------------------------------------------------------------ (de)serialise
def dump_terms(terms):
    """Serialise a list of terms (shared DAG) to plain picklable data."""
    index = {}
    nodes = []

    def go(t):
        stack = [t]
        while stack:
            x = stack[-1]
            if id(x) in index:
                stack.pop()
                continue
            pend = [a for a in x.args if isinstance(a, T) and id(a) not in index]
            if pend:
                stack.extend(pend)
                continue
            if x.op == 'const':
                v = x.val
                if x.sort == 'R':
                    v = (v.numerator, v.denominator)
                nodes.append(('c', x.sort, v))
            elif x.op == 'var':
                nodes.append(('v', x.sort, x.val))
            else:
                nodes.append((x.op, x.sort, tuple(index[id(a)] for a in x.args)))
            index[id(x)] = len(nodes) - 1
            stack.pop()
    roots = []
    for t in terms:
        go(t)
        roots.append(index[id(t)])
    return nodes, roots


def load_terms(data):
    nodes, roots = data
    built = []
    for n in nodes:
        if n[0] == 'c':
            s, v = n[1], n[2]
            built.append(B(v) if s == 'B' else I(v) if s == 'I' else R(Fraction(v[0], v[1])))
        elif n[0] == 'v':
            built.append(var(n[2], n[1]))
        else:
            op, sort, args = n
            a = [built[i] for i in args]
            if op.startswith('uf:'):
                built.append(uf(op[3:], a, sort))
            else:
                built.append(_mk(op, tuple(a), sort))
    return [built[i] for i in roots]


# ------------------------------------------------------------------ digest
_digests = {}


def digest(t):
    """Structural digest of a term, stable across processes (names fresh
    symbols that are *functions* of a term, e.g. the rounding of x)."""
    import hashlib
    d = _digests.get(id(t))
    if d is not None:
        return d
    stack = [t]
    while stack:
        x = stack[-1]
        if id(x) in _digests:
            stack.pop()
            continue
        pend = [a for a in x.args if isinstance(a, T) and id(a) not in _digests]
        if pend:
            stack.extend(pend)
            continue
        h = hashlib.md5()
        h.update(('%s|%s|%s|' % (x.op, x.sort, x.val)).encode())
        for a in x.args:
            h.update(_digests[id(a)].encode() if isinstance(a, T) else str(a).encode())
        _digests[id(x)] = h.hexdigest()[:16]
        stack.pop()
    return _digests[id(t)]


# ------------------------------------------------------------- grid typing
_gridmemo = {}


def _dec_places(fr):
    d = fr.denominator
    p = 0
    while d % 10 == 0:
        d //= 10
        p += 1
    # remaining factors 2 and 5 also terminate
    q = d
    n2 = n5 = 0
    while q % 2 == 0:
        q //= 2
        n2 += 1
    while q % 5 == 0:
        q //= 5
        n5 += 1
    if q != 1:
        return None
    return p + max(n2, n5)


def grid_places(t):
    """Smallest p such that the term's value is provably a multiple of 10^-p
    (given that Int-sorted subterms are integers), or None.  Used to make
    round(x, p) the identity on operands that are already on the grid."""
    memo = _gridmemo
    k0 = id(t)
    if k0 in memo:
        return memo[k0]
    stack = [t]
    while stack:
        x = stack[-1]
        if id(x) in memo:
            stack.pop()
            continue
        pend = [a for a in x.args if isinstance(a, T) and id(a) not in memo]
        if pend:
            stack.extend(pend)
            continue
        op = x.op
        g = None
        if x.sort == 'I':
            g = 0
        elif x.sort == 'B':
            g = 0
        elif op == 'const':
            g = _dec_places(x.val)
        elif op == 'toreal':
            g = 0
        elif op in ('add', 'sub'):
            a, b = memo[id(x.args[0])], memo[id(x.args[1])]
            g = None if a is None or b is None else max(a, b)
        elif op == 'neg':
            g = memo[id(x.args[0])]
        elif op == 'mul':
            a, b = memo[id(x.args[0])], memo[id(x.args[1])]
            g = None if a is None or b is None else a + b
        elif op == 'ite':
            a, b = memo[id(x.args[1])], memo[id(x.args[2])]
            g = None if a is None or b is None else max(a, b)
        elif op == 'div':
            a = memo[id(x.args[0])]
            den = x.args[1]
            if a is not None and den.is_const() and den.val != 0:
                inv = _dec_places(1 / den.val)
                g = None if inv is None else a + inv
        if g is not None and g > 9:
            g = None
        memo[id(x)] = g
        stack.pop()
    return memo[k0]
