"""C09: declaring an unsupported situation never yields a solved return.

Per gate input g of oracle/gates.json the whole-return model (hv.retmodel) is
asked: exists inputs with g affirmative, g actually consulted by an evaluated
line, and the return solved?  unsat = holds for every input assignment inside
the bound.  A sat witness is replayed through the real Solver.  The twin query
with g negative must be sat (reachability / vacuity guard).
"""
import json
import os
import time
from fractions import Fraction

import z3

from .. import common, retmodel, summary
from .. import terms as tm


def load_gates():
    with open(os.path.join(common.VERIF, 'oracle', 'gates.json')) as f:
        return json.load(f)


def consulted(rm, name):
    out = []
    for n in rm.lines:
        for k, p in enumerate(rm.summ[n]):
            if (n, k) in rm.sel and any(kind == 'read_input' and nm == name for kind, nm, _ in p.reads):
                out.append(rm.sel[(n, k)])
    return out


def capacity_gate(lf, year, cg, res):
    """Unit-level row-capacity gate: the count input is symbolic in 0..rows+2 and
    every other line the Schedule B lines read is a free symbol, so no copy has
    to be instantiated.  The gate is met when some *required* line of the form
    has no value path with count > rows (a required line without a value leaves
    the return unsolved).  Otherwise z3's witness is turned into a concrete
    (rows+1)-copy return, built from a solved one-copy witness of the
    whole-return model, and run on the real Solver."""
    rm = lf.rm
    cat = summary.Catalogue(year)
    form = cat.form(cg['form'])
    rows = cg['rows']
    req = [f for f in form.required_fields()]
    summ = {}
    for fld in req:
        ps, _stats, complete = summary.summarise(cat, fld, int_bound=rows + 2, cents=True)
        summ[fld.name()] = (ps, complete)
        res['unit_paths'] = res.get('unit_paths', 0) + len(ps)
    for cname, copy_form in sorted(cg['counts'].items()):
        cnt = tm.var('i:' + cname, 'I')
        over = tm.lt(tm.I(rows), cnt)
        nm = 'ty%d/capacity/%s/%s' % (year, cg['name'], cname)
        t1 = time.time()
        guard = None
        witness = None
        unknown = False
        via = {}
        summ_opt = {}
        def refuses(name, depth=0):
            # line `name` has no value path at all with count > rows (and does refuse somewhere)
            if name not in summ:
                if not name.startswith(cg['form'] + '.'):
                    return False
                try:
                    f2 = cat.field(name)
                except Exception:
                    return False
                ps2, complete2 = summary.summarise(cat, f2, int_bound=rows + 2, cents=True)[::2]
                summ_opt[name] = (ps2, complete2)
                res['unit_paths'] = res.get('unit_paths', 0) + len(ps2)
            ps2, complete2 = summ.get(name) or summ_opt[name]
            if not complete2 or any(q.kind in ('cut', 'unsupported') or q.unknown for q in ps2):
                return False
            if not any(q.kind == 'not_implemented' for q in ps2):
                return False
            for q in ps2:
                if q.kind != 'value':
                    continue
                s2 = z3.Solver()
                s2.set('timeout', 20000)
                for c in list(q.conds) + list(q.assumes) + [over]:
                    s2.add(tm.to_z3(c))
                res['unit_queries'] = res.get('unit_queries', 0) + 1
                if str(s2.check()) != 'unsat':
                    return False
            return True

        for lname, (ps, complete) in sorted(summ.items()):
            if not complete or any(p.kind in ('cut', 'unsupported') or p.unknown for p in ps):
                unknown = True
                continue
            sat_here = False
            for p in ps:
                if p.kind != 'value':
                    continue
                # a value path that reads a line of the same form which itself refuses
                # every count > rows cannot complete in a solved return either
                if any(kind == 'read_line' and nm2 != lname and nm2 not in summ and refuses(nm2) for kind, nm2, _ in p.reads):
                    via[lname] = [nm2 for kind, nm2, _ in p.reads if kind == 'read_line' and nm2 in summ_opt and refuses(nm2)][:1]
                    continue
                s = z3.Solver()
                s.set('timeout', 20000)
                for c in list(p.conds) + list(p.assumes) + [over]:
                    s.add(tm.to_z3(c))
                r = str(s.check())
                res['unit_queries'] = res.get('unit_queries', 0) + 1
                if r == 'sat':
                    sat_here = True
                    if witness is None:
                        m = s.model()
                        witness = {'line': lname, 'count': int(tm.model_value(m, cnt))}
                    break
                if r != 'unsat':
                    unknown = True
                    sat_here = True
                    break
            if not sat_here and (any(p.kind == 'not_implemented' for p in ps) or via.get(lname)):
                guard = lname
                break
        dt = time.time() - t1
        desc = 'unit level, %s symbolic in 0..%d, all other reads free: some required line of %s has no value path with count > %d' % (cname, rows + 2, cg['form'], rows)
        if guard is not None:
            res['obl'].append((nm, 'unsat', dt, desc + ' [guarding line: %s%s]' % (guard, (' via ' + via[guard][0]) if via.get(guard) else '')))
            # reachability twin: the guarding line does have a value path within capacity
            ps = summ[guard][0]
            ok = False
            for p in ps:
                if p.kind != 'value':
                    continue
                s = z3.Solver()
                for c in list(p.conds) + list(p.assumes) + [tm.le(cnt, tm.I(rows)), tm.le(tm.I(1), cnt)]:
                    s.add(tm.to_z3(c))
                if str(s.check()) == 'sat':
                    ok = True
                    break
            res['obl'].append((nm + '-twin', 'unsat' if ok else 'vacuous', 0.0, 'reachability twin: %s has a value path with 1 <= count <= %d' % (guard, rows)))
            continue
        if witness is None or unknown and witness is None:
            res['obl'].append((nm, 'unknown', dt, desc))
            continue
        # unit-level witness: confirm through the public API on a (rows+1)-copy return
        part = cg['form'] + '.part_3'
        extra = [rm.solved, tm.eq(cnt, tm.I(1))]
        # the other listing stays empty, so that the form is filed because of this one
        extra += [tm.eq(tm.var('i:' + o, 'I'), tm.I(0)) for o in cg['counts'] if o != cname]
        # ... and the listing total sits just above the filing threshold, so that one row can be split off
        tl = cg['listing'][cname]['total_line']
        if tl in rm.lvar:
            thr = cg['threshold']
            extra += [rm.valued[tl], tm.lt(tm.R(thr), rm.lvar[tl][1]), tm.le(rm.lvar[tl][1], tm.R(thr + 1)),
                      tm.le(tm.R(2), rm.float_input_term('%s:0.%s' % (copy_form, cg['listing'][cname]['amount_input'])))]
        if part in rm.dem:
            extra.append(rm.dem[part])
        r, base, _m = lf.query(extra)
        res['obl'].append((nm, 'sat' if r == 'sat' else 'unknown', dt, desc + ' [no guarding line; witness count=%d on %s]' % (witness['count'], witness['line'])))
        if r != 'sat':
            continue
        I = cat.hab_inputs
        n = max(witness['count'], rows + 1)
        amt = cg['listing'][cname]['amount_input']
        a0 = Fraction(base['%s:0.%s' % (copy_form, amt)])
        cut = Fraction(101, 100)
        # rows 0..rows-1 carry the base copy less $1.01 (their total stays at or under the
        # threshold), the copy that does not fit carries the $1.01: totals over all copies
        # are those of the solved one-copy witness
        inputs = dict((k, v) for k, v in base.items() if not k.startswith(copy_form + ':'))
        inputs[cname] = str(n)
        for k in range(n):
            for key, val in base.items():
                if not key.startswith(copy_form + ':0.'):
                    continue
                tail = key.split('.', 1)[1]
                if type(cat.input(key)) is I.FloatInput:
                    if tail == amt:
                        val = retmodel.frac_to_text(a0 - cut) if k == 0 else (retmodel.frac_to_text(cut) if k == n - 1 else '0')
                    elif k != 0:
                        val = '0'
                inputs['%s:%d.%s' % (copy_form, k, tail)] = val
        res['viol'].append({'key': 'ty%d:capacity:%s:%s' % (year, cg['name'], cname),
                            'what': '%d copies of %s (Schedule B has %d rows) still yield a solved return' % (n, copy_form, rows),
                            'replay': {'kind': 'solve', 'year': year, 'forms': ['1040'], 'inputs': inputs, 'expect': {'kind': 'solved'}}})


def task(arg):
    year, K, S, names, limit_gates, forms = arg[:6]
    cap_gates = arg[6] if len(arg) > 6 else []
    os.environ['HV_PROCS'] = '1'
    lf = retmodel.Lifter(year, K, S, forms, timeout_ms=30000)
    rm = lf.rm
    res = {'year': year, 'obl': [], 'viol': [], 'lf': None}
    res['model_paths'] = sum(len(v) for v in rm.summ.values())
    res['model_lines'] = len(rm.summ)
    for name in names:
        g = tm.var('i:' + name, 'B')
        cons = consulted(rm, name)
        if not cons:
            res['obl'].append(('ty%d/gate/%s' % (year, name), 'unknown', 0.0, 'gate input is never read by any line in the demand closure of %s' % forms))
            continue
        t1 = time.time()
        r, inputs, m = lf.query([rm.solved, g, tm.or_(*cons)])
        dt = time.time() - t1
        res['obl'].append(('ty%d/gate/%s' % (year, name), r, dt, 'exists inputs: %s=yes, consulted by an evaluated line, and the return solves' % name))
        if r == 'sat':
            res['viol'].append({'key': 'ty%d:gate:%s' % (year, name), 'what': 'answering yes to %s (and having it consulted) still yields a solved return' % name,
                                'replay': {'kind': 'solve', 'year': year, 'forms': forms, 'inputs': inputs, 'expect': {'kind': 'solved'}}})
        # reachability twin
        t1 = time.time()
        r0, _, _ = lf.query([rm.solved, tm.not_(g), tm.or_(*cons)], want_inputs=False)
        res['obl'].append(('ty%d/gate-twin/%s' % (year, name), 'unsat' if r0 == 'sat' else ('unknown' if r0 == 'unknown' else 'vacuous'), time.time() - t1,
                           'reachability twin: %s=no, consulted, solved must be satisfiable' % name))
    for lg in limit_gates:
        if year not in lg['years']:
            continue
        if lg['name'] == 'foreign_tax_over_form_1116_limit':
            line = lg['line']
            if line not in rm.summ:
                continue
            tot = tm.R(0)
            for n in rm.lines:
                if (n.startswith('1099-int:') and n.endswith('.box_6')) or (n.startswith('1099-div:') and n.endswith('.box_7')):
                    tot = tm.add(tot, tm.ite(rm.valued[n], rm.lvar[n][1], tm.R(0)))
            st = tm.var('i:1040.filing_status', 'I')
            members = [mm.name for mm in rm.cat.input('1040.filing_status').enum]
            lim = tm.ite(tm.eq(st, tm.I(members.index('MarriedFilingJointly'))), tm.R(lg['limit']['MarriedFilingJointly']), tm.R(lg['limit']['other']))
            cond = [rm.solved, rm.dem[line], tm.lt(lim, tot)]
            nm = 'ty%d/limit/%s' % (year, lg['name'])
            t1 = time.time()
            r, inputs, m = lf.query(cond)
            res['obl'].append((nm, r, time.time() - t1, 'exists inputs: foreign tax total above the Form 1116 limit, Schedule 3 line 1 demanded, return solved'))
            if r == 'sat':
                res['viol'].append({'key': 'ty%d:limit:%s' % (year, lg['name']), 'what': 'foreign tax above the Form 1116 threshold still yields a solved return',
                                    'replay': {'kind': 'solve', 'year': year, 'forms': forms, 'inputs': inputs, 'expect': {'kind': 'solved'}}})
            r0, _, _ = lf.query([rm.solved, rm.dem[line], tm.lt(tm.R(1), tot), tm.le(tot, lim)], want_inputs=False)
            res['obl'].append((nm + '-twin', 'unsat' if r0 == 'sat' else ('unknown' if r0 == 'unknown' else 'vacuous'), 0.0, 'twin: foreign tax within the limit solves'))
        elif lg['name'] == 'hsa_contribution_over_limit':
            for who in ('you', 'spouse'):
                line = lg['line'].format(who=who)
                l2, l13 = '8889:%s.2' % who, '8889:%s.13' % who
                if line not in rm.summ or l2 not in rm.summ or l13 not in rm.summ:
                    continue
                cond = [rm.solved, rm.dem[line], rm.valued[l2], rm.valued[l13], tm.lt(rm.lvar[l13][1], rm.lvar[l2][1])]
                nm = 'ty%d/limit/%s/%s' % (year, lg['name'], who)
                t1 = time.time()
                r, inputs, m = lf.query(cond)
                res['obl'].append((nm, r, time.time() - t1, 'exists inputs: Form 8889 line 2 > line 13, hsa_deduction demanded, return solved'))
                if r == 'sat':
                    res['viol'].append({'key': 'ty%d:limit:%s:%s' % (year, lg['name'], who), 'what': 'HSA contribution above the limit still yields a solved return',
                                        'replay': {'kind': 'solve', 'year': year, 'forms': forms, 'inputs': inputs, 'expect': {'kind': 'solved'}}})
                r0, _, _ = lf.query([rm.solved, rm.dem[line], rm.valued[l2], rm.valued[l13], tm.lt(tm.R(1), rm.lvar[l2][1]), tm.le(rm.lvar[l2][1], rm.lvar[l13][1])], want_inputs=False)
                res['obl'].append((nm + '-twin', 'unsat' if r0 == 'sat' else ('unknown' if r0 == 'unknown' else 'vacuous'), 0.0, 'twin: contribution within the limit solves'))
    for cg in cap_gates:
        if year in cg['years']:
            capacity_gate(lf, year, cg, res)
    res['lf'] = dict(lf.stats)
    return res


def run(tier):
    K, S = (1, 2) if tier == 'quick' else (2, 3)
    gates = load_gates()
    c = common.Check('C09', tier, 'SMT queries on the whole-return model composed from path-exhaustive symbolic summaries of the real line definitions: "gate affirmative and consulted and solved" must be unsat; witnesses replayed on the real Solver',
                     ['Field.value of every line in the demand closure of Form 1040 (all years)', 'habutax.form.Form.threshold', 'whole-return composition (hv.retmodel) validated differentially against habutax.solver.Solver'])
    c.bounds = {'years': [2021, 2022, 2023], 'requested_forms': [['1040'], ['1040', 'nc_d-400']], 'copies_per_input_form': K, 'copies_total': S, 'amounts': '|x| <= 1e8, whole cents', 'filing_status': 'symbolic', 'number_dependents': '0..5'}
    c.outside = gates['outside']
    c.stubs = ['figure_tax -> uninterpreted FT(status,x) in [0,0.37x]', 'InputStore -> every catalogued input present with a symbolic value of its type']
    c.assumptions = ['oracle/gates.json is the specification of the unsupported situations', 'the whole-return model over-approximates every real solved run inside the bound (validated differentially on witnesses)']
    retmodel.preload([(y, K, {'S': S, 'ft': 'uf', 'cents': True}) for y in (2021, 2022, 2023)])   # summaries of every form of the year, NC included
    os.environ['HV_PRELOADED'] = '1'
    tasks = []
    for y in (2021, 2022, 2023):
        names = gates['gates'][str(y)]
        nchunks = 5
        for i in range(nchunks):
            tasks.append((y, K, S, names[i::nchunks], gates['limit_gates'] if i == 0 else [], ['1040'], gates.get('capacity_gates', []) if i == 1 else []))
        for nm in gates.get('nc_gates', {}).get(str(y), []):
            tasks.append((y, K, S, [nm], [], ['1040', 'nc_d-400']))
    results = common.pmap(task, tasks)
    mp = {}
    for r in results:
        mp[r['year']] = max(mp.get(r['year'], (0, 0)), (r.get('model_lines', 0), r.get('model_paths', 0)))
        for nm, res, dt, desc in r['obl']:
            if res == 'vacuous':
                c.inconclusive.append('vacuous twin: ' + nm)
                res = 'unknown'
                c.obligations += 1
                c.unknown += 1
                continue
            c.obligation(nm, res, dt, sample={'obligation': nm, 'query': desc, 'result': res})
        done = set()
        for v in r['viol']:
            if v['key'] in done:
                continue        # alternative placement of an already confirmed witness
            out = common.run_real(['solve'], v['replay'])
            c.replays_run += 1
            if out.get('reproduced'):
                done.add(v['key'])
                c.violation(v['key'], v['what'] + ' [real solve: %s]' % out.get('detail'), v['replay'])
            else:
                c.spurious += 1
                c.inconclusive.append('witness did not reproduce: %s (%s)' % (v['key'], out.get('detail')))
        if r['lf']:
            c.solver_s += r['lf']['secs']
    c.paths += sum(v[1] for v in mp.values())
    c.extra['capacity_gate_unit'] = {'paths': sum(r.get('unit_paths', 0) for r in results), 'queries': sum(r.get('unit_queries', 0) for r in results)}
    c.paths += c.extra['capacity_gate_unit']['paths']
    c.extra['whole_return_model'] = {str(y): {'lines': v[0], 'symbolic_paths_composed': v[1]} for y, v in mp.items()}
    return c.finish()
