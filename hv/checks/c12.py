"""C12: stored line values have the declared type, rounding and blank convention.

The real TypedField / FloatField / EnumField .value runs on a definition that
returns a symbolic tagged value: the tag (None, bool, int, float, blank text,
text, member of the right enum, member of another enum) is an SMT choice, the
payload is symbolic.  Per path: result type exactly the declared one, None /
blank text -> the type's empty value, money on the 10^-places grid within half
a unit of what the definition returned (SMT query), anything else -> TypeError
naming the line.
"""
import enum
import importlib
import time

import z3

from .. import common, instrument, symx, rt, bstr
from .. import terms as tm

TAGS = ['none', 'bool', 'int', 'float', 'blank', 'text', 'enum', 'other_enum', 'int_subclass', 'str_subclass', 'float_subclass']


class _IntSub(enum.IntEnum):
    A = 3
    B = 0


class _StrSub(str):
    pass


class _FloatSub(float):
    pass


class FakeForm(object):
    def name(self):
        return 'frm'


def task(arg):
    fname, places = arg
    instrument.install()
    F = importlib.import_module('habutax.fields')
    E = importlib.import_module('habutax.enum')
    en = E.make('Color', {'red': 'r', 'green': 'g'})
    other = E.make('Other', {'red': 'r', 'x': 'x'})
    res = {'field': fname, 'places': places, 'paths': 0, 'obl': [], 'viol': [], 'samples': [], 'kinds': {}}
    ex = symx.Explorer(timeout_ms=20000, max_paths=20000)
    holder = {}

    def mkfield(fn):
        if fname == 'StringField':
            return F.StringField('ln', fn), str, ''
        if fname == 'BooleanField':
            return F.BooleanField('ln', fn), bool, False
        if fname == 'IntegerField':
            return F.IntegerField('ln', fn), int, 0
        if fname == 'FloatField':
            return F.FloatField('ln', fn, places=places), float, 0.0
        return F.EnumField('ln', en, fn), en, None

    def body():
        tagv = tm.var('tag', 'I')
        e = symx.cur()
        e.assume(tm.and_(tm.le(tm.I(0), tagv), tm.lt(tagv, tm.I(len(TAGS)))))
        tag = TAGS[e.concretize(tagv)]
        if tag == 'none':
            ret = None
        elif tag == 'bool':
            ret = symx.fresh_bool('pb')
        elif tag == 'int':
            ret = symx.fresh_int('pi', -10 ** 9, 10 ** 9)
        elif tag == 'float':
            ret = symx.fresh_real('pf', -10 ** 9, 10 ** 9)
        elif tag == 'blank':
            s = bstr.BStr.fresh('ps', 3)
            e.assume(tm.and_(*[tm.implies(tm.lt(tm.I(k), s.n), bstr.is_ws(s.chars[k])) for k in range(3)]))
            ret = s
        elif tag == 'text':
            s = bstr.BStr.fresh('ps', 3)
            e.assume(tm.or_(*[tm.and_(tm.lt(tm.I(k), s.n), tm.not_(bstr.is_ws(s.chars[k]))) for k in range(3)]))
            ret = s
        elif tag == 'enum':
            ret = symx.fresh_enum(en, 'pe')
        elif tag == 'int_subclass':
            ret = [_IntSub.A, _IntSub.B][e.concretize(symx.fresh_int('pk', 0, 1).term)]
        elif tag == 'str_subclass':
            ret = _StrSub('ab')
        elif tag == 'float_subclass':
            ret = [_FloatSub(1.5), _FloatSub(0.0)][e.concretize(symx.fresh_int('pk', 0, 1).term)]
        else:
            ret = symx.fresh_enum(other, 'po')
        holder['ret'] = ret
        holder['tag'] = tag
        fld, typ, empty = mkfield(lambda s, i, v: ret)
        fld.__form_init__(FakeForm())
        holder['typ'], holder['empty'] = typ, empty
        try:
            out = fld.value({}, {})
        except TypeError as ex_:
            return ('TypeError', str(ex_))
        # is it the type's empty value?  (decided inside the exploration: the
        # comparison may involve symbolic text)
        if out is empty:
            is_empty = True
        elif rt.type_(out) is type(empty) and empty is not None:
            is_empty = bool(out == empty)
        else:
            is_empty = False
        holder['is_empty'] = is_empty
        return ('value', out)
    chk = z3.Solver()
    chk.set('timeout', 20000)
    for p in ex.explore(body):
        res['paths'] += 1
        if p.cut or p.unsupported or p.exc is not None:
            res['obl'].append(('%s/p%s/path%d' % (fname, places, res['paths']), 'unknown', 0.0))
            res['viol'].append({'key': None, 'what': 'path not evaluated: %s' % (p.cut or p.unsupported or repr(p.exc))})
            continue
        kind, out = p.outcome
        tag, typ, empty, ret = holder['tag'], holder['typ'], holder['empty'], holder['ret']
        res['kinds']['%s->%s' % (tag, kind)] = res['kinds'].get('%s->%s' % (tag, kind), 0) + 1
        nm = '%s/p%s/%s/path%d' % (fname, places, tag, res['paths'])
        ok = True
        what = None
        expected_value = {'StringField': ('none', 'blank', 'text'), 'BooleanField': ('none', 'blank', 'bool'), 'IntegerField': ('none', 'blank', 'int'),
                          'FloatField': ('none', 'blank', 'float'), 'EnumField': ('none', 'blank', 'enum')}[fname]
        if tag in expected_value:
            if kind != 'value':
                ok, what = False, 'a %s returned by the definition of a %s was rejected (%s)' % (tag, fname, out)
            elif tag in ('none', 'blank'):
                if not holder.get('is_empty'):
                    ok, what = False, '%s from the definition is stored as %r instead of the empty value %r' % (tag, out, empty)
            else:
                t = rt.type_(out)
                if t is not typ:
                    ok, what = False, 'stored value has type %s, declared %s' % (t, typ)
                elif fname == 'FloatField':
                    # on the grid and within half a unit (+eps) of what the definition returned
                    ot = symx._lift(out)[0]
                    rt_ = symx._lift(ret)[0]
                    g = tm.grid_places(ot)
                    band = symx.EPS + __import__('fractions').Fraction(1, 2) / (10 ** places)
                    q = tm.or_(tm.lt(tm.R(band), tm.sub(ot, rt_)), tm.lt(tm.R(band), tm.sub(rt_, ot)))
                    chk.push()
                    for r_ in p.decisions:
                        chk.add(tm.to_z3(r_.term if r_.value else tm.not_(r_.term)))
                    chk.add(tm.to_z3(q))
                    t0 = time.time()
                    r = str(chk.check())
                    chk.pop()
                    res['obl'].append((nm + '/band', r, time.time() - t0))
                    if g is None or g > places:
                        ok, what = False, 'money value is stored without being rounded to %d places' % places
                    elif r != 'unsat':
                        ok, what = False, 'stored money value is further than half a unit from the returned value'
        else:
            if kind != 'TypeError':
                ok, what = False, 'a %s returned by the definition of a %s was stored (as %r) instead of being rejected' % (tag, fname, out)
            elif 'frm.ln' not in out:
                ok, what = False, 'the TypeError does not name the line: %s' % out
        res['obl'].append((nm, 'unsat' if ok else 'sat', 0.0))
        if not ok:
            res['viol'].append({'key': '%s:%s:%s' % (fname, places, tag), 'what': what, 'tag': tag})
        if len(res['samples']) < 2:
            res['samples'].append({'field': fname, 'places': places, 'returned_tag': tag, 'outcome': kind, 'stored': repr(out)[:80]})
    return res


def run(tier):
    c = common.Check('C12', tier, 'bounded symbolic execution of the real TypedField/FloatField/EnumField.value on an SMT-chosen tagged return value with symbolic payload; grid/band of the rounded result by SMT query',
                     ['habutax.fields.TypedField.value', 'habutax.fields.FloatField.value', 'habutax.fields.EnumField / BooleanField / IntegerField / StringField'])
    c.bounds = {'field_classes': 5, 'places': [0, 2, 5], 'tags': TAGS, 'payloads': 'bool, int |n|<=1e9, real |x|<=1e9, text up to 3 ASCII chars, every member of two enums'}
    c.outside = ['subclass instances other than bool-for-int', 'non-ASCII whitespace', 'float rounding noise (banded model, DESIGN 3.3)']
    tasks = [('StringField', None), ('BooleanField', None), ('IntegerField', None), ('EnumField', None), ('FloatField', 0), ('FloatField', 2), ('FloatField', 5)]
    results = common.pmap(task, tasks)
    for r in results:
        c.paths += r['paths']
        for nm, res, dt in r['obl']:
            c.obligation(nm, res, dt)
        c.samples.extend(r['samples'][:1])
        c.extra.setdefault('outcomes', {})['%s/%s' % (r['field'], r['places'])] = r['kinds']
        for v in r['viol']:
            if v['key'] is None:
                c.inconclusive.append(v['what'])
                continue
            rep = {'kind': 'field_value', 'field': r['field'], 'places': r['places'], 'tag': v['tag']}
            out = common.run_real(['field_value'], rep)
            c.replays_run += 1
            if out.get('reproduced'):
                c.violation('C12:' + v['key'], v['what'] + ' [real code: %s]' % out.get('detail'), rep)
            else:
                c.spurious += 1
                c.inconclusive.append('not reproduced: %s (%s)' % (v['key'], out.get('detail')))
    return c.finish()
