"""C05 via the shared algorithm harness (hv.algo_check)."""
from .. import algo_check


def run(tier):
    return algo_check.run_property('C05', tier)
