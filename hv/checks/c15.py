"""C15: a solved return balances and has no impossible negative amounts.

Whole-return SMT queries (hv.retmodel, inputs constrained non-negative):
solved and not(balance identity) must be unsat; for every line of
oracle/nonneg.json: solved and line valued and value < 0 must be unsat.
Witnesses are replayed through the real Solver.
"""
import json
import os
import time

from .. import common, retmodel
from .. import terms as tm


def load():
    with open(os.path.join(common.VERIF, 'oracle', 'nonneg.json')) as f:
        return json.load(f)


def val0(rm, n):
    """value of a line, blank (0) when not valued"""
    return tm.ite(rm.valued[n], rm.lvar[n][1], tm.R(0))


def task(arg):
    year, K, S, forms, lines, do_balance = arg
    os.environ['HV_PROCS'] = '1'
    lf = retmodel.Lifter(year, K, S, forms, ft='ref', nonneg=True, timeout_ms=30000)
    rm = lf.rm
    res = {'year': year, 'obl': [], 'viol': [], 'stats': None}
    res['model_paths'] = sum(len(v) for v in rm.summ.values())
    res['model_lines'] = len(rm.summ)
    if do_balance == 'federal' and all(('1040.' + x) in rm.summ for x in ('24', '33', '34', '35a', '36', '37')):
        L = {x: rm.lvar['1040.' + x][1] for x in ('24', '33', '34', '35a', '36', '37')}
        qs = [('34-37==33-24', tm.ne(tm.sub(L['34'], L['37']), tm.sub(L['33'], L['24'])), '1040.34'),
              ('at most one of 34/37 positive', tm.and_(tm.lt(tm.R(0), L['34']), tm.lt(tm.R(0), L['37'])), '1040.37'),
              ('35a+36==34', tm.ne(tm.add(L['35a'], L['36']), L['34']), '1040.35a')]
        for nm, bad, line in qs:
            t1 = time.time()
            r, inputs, m = lf.query([rm.solved, bad] + lf.integral(['1040.' + x for x in L]))
            res['obl'].append(('ty%d/balance/%s' % (year, nm), r, time.time() - t1, 'exists non-negative inputs: return solved and not (%s)' % nm))
            if r == 'sat':
                vals = {k: str(lf.mv(m, t)) for k, t in L.items()}
                res['viol'].append({'key': 'ty%d:balance:%s' % (year, nm), 'what': 'solved federal return does not balance (%s): model lines %s' % (nm, vals),
                                    'replay': {'kind': 'solve', 'year': year, 'forms': forms, 'inputs': inputs, 'expect': {'kind': 'balance', 'which': nm}}})
        r0, _, _ = lf.query([rm.solved, tm.lt(tm.R(1), L['34'])], want_inputs=False)
        res['obl'].append(('ty%d/balance/twin-refund' % year, 'unsat' if r0 == 'sat' else 'unknown', 0.0, 'reachability: a solved return with a refund exists'))
        r0, _, _ = lf.query([rm.solved, tm.lt(tm.R(1), L['37'])], want_inputs=False)
        res['obl'].append(('ty%d/balance/twin-owed' % year, 'unsat' if r0 == 'sat' else 'unknown', 0.0, 'reachability: a solved return with an amount owed exists'))
    if do_balance == 'nc' and all(('nc_d-400.' + x) in rm.summ for x in ('19', '25', '26a', '28', '33', '34')):
        V = {x: val0(rm, 'nc_d-400.' + x) for x in ('19', '25', '26a', '28', '33', '34')}
        qs = [('28-26a==25-19', tm.ne(tm.sub(V['28'], V['26a']), tm.sub(V['25'], V['19']))),
              ('34+33==28', tm.and_(rm.valued['nc_d-400.34'], tm.ne(tm.add(V['34'], V['33']), V['28'])))]
        for nm, bad in qs:
            t1 = time.time()
            r, inputs, m = lf.query([rm.solved, bad])
            res['obl'].append(('ty%d/nc-balance/%s' % (year, nm), r, time.time() - t1, 'exists non-negative inputs: NC return solved and not (%s)' % nm))
            if r == 'sat':
                res['viol'].append({'key': 'ty%d:nc-balance:%s' % (year, nm), 'what': 'solved NC return does not balance (%s)' % nm,
                                    'replay': {'kind': 'solve', 'year': year, 'forms': forms, 'inputs': inputs, 'expect': {'kind': 'nc_balance', 'which': nm}}})
    for n in lines:
        if n not in rm.summ or rm.lvar[n][0] != 'num':
            continue
        t1 = time.time()
        r, inputs, m = lf.query([rm.solved, rm.valued[n], tm.lt(rm.lvar[n][1], tm.R(0))] + lf.integral(lf.cone(n, 3)))
        res['obl'].append(('ty%d/nonneg/%s' % (year, n), r, time.time() - t1, 'exists non-negative inputs: return solved and %s < 0' % n))
        if r == 'sat':
            res['viol'].append({'key': 'ty%d:negative:%s' % (year, n), 'what': 'solved return with non-negative inputs has %s = %s < 0' % (n, float(lf.mv(m, rm.lvar[n][1]))),
                                'replay': {'kind': 'solve', 'year': year, 'forms': forms, 'inputs': inputs, 'expect': {'kind': 'line_negative', 'line': n, 'need_solved': True}}})
            # a witness sitting on a rounding tie may not reproduce: also look for one beyond rounding noise
            r2, inputs2, m2 = lf.query([rm.solved, rm.valued[n], tm.lt(rm.lvar[n][1], tm.R(-2))] + lf.integral(lf.cone(n, 3)))
            if r2 == 'sat':
                res['viol'].append({'key': 'ty%d:negative:%s' % (year, n), 'alt': True, 'what': 'solved return with non-negative inputs has %s = %s < -2' % (n, float(lf.mv(m2, rm.lvar[n][1]))),
                                    'replay': {'kind': 'solve', 'year': year, 'forms': forms, 'inputs': inputs2, 'expect': {'kind': 'line_negative', 'line': n, 'need_solved': True}}})
    res['stats'] = dict(lf.stats)
    return res


def run(tier):
    K, S = (1, 2) if tier == 'quick' else (2, 3)
    spec = load()
    c = common.Check('C15', tier, 'SMT queries on the whole-return model composed from path-exhaustive symbolic summaries of the real line definitions: solved and not(balance) / solved and line < 0 must be unsat for non-negative inputs; witnesses replayed on the real Solver',
                     ['Field.value of every line in the demand closure of Form 1040 / NC D-400 (all years)', 'FloatField rounding (banded model, identity on grid operands)'])
    c.bounds = {'years': [2021, 2022, 2023], 'requested_forms': [['1040'], ['1040', 'nc_d-400']], 'copies_per_input_form': K, 'copies_total': S, 'amounts': '0 <= x <= 1e8, whole cents', 'filing_status': 'symbolic'}
    c.stubs = ['figure_tax -> the statutory schedule term that C07 proves the real function equal to', 'InputStore -> every catalogued input present with a symbolic non-negative value']
    c.assumptions = ['oracle/nonneg.json lists the lines the forms define as non-negative', 'float arithmetic error of a line < 1e-6 (lemma L-fp)']
    retmodel.preload([(y, K, {'S': S, 'ft': 'ref', 'cents': True, 'nonneg': True}) for y in (2021, 2022, 2023)])
    os.environ['HV_PRELOADED'] = '1'
    fed = [f + '.' + l for f, ls in spec['federal'].items() for l in ls]
    nc = [f + '.' + l for f, ls in spec['nc'].items() for l in ls]
    tasks = []
    for y in (2021, 2022, 2023):
        n = 4
        for i in range(n):
            tasks.append((y, K, S, ['1040'], fed[i::n], 'federal' if i == 0 else None))
        for i in range(3):
            tasks.append((y, K, S, ['1040', 'nc_d-400'], nc[i::3], 'nc' if i == 0 else None))
    results = common.pmap(task, tasks)
    mp = {}
    for r in results:
        mp[r['year']] = max(mp.get(r['year'], (0, 0)), (r.get('model_lines', 0), r.get('model_paths', 0)))
        for nm, res, dt, desc in r['obl']:
            c.obligation(nm, res, dt, sample={'obligation': nm, 'query': desc, 'result': res})
        done = set()
        for v in r['viol']:
            if v['key'] in done:
                continue
            out = common.run_real(['solve'], v['replay'])
            c.replays_run += 1
            if out.get('reproduced'):
                done.add(v['key'])
                c.violation(v['key'], v['what'] + ' [real solve: %s]' % out.get('detail'), v['replay'])
            else:
                c.spurious += 1
                c.inconclusive.append('witness did not reproduce: %s (%s)' % (v['key'], out.get('detail')))
        c.solver_s += r['stats']['secs']
    c.paths += sum(v[1] for v in mp.values())
    c.extra['whole_return_model'] = {str(y): {'lines': v[0], 'symbolic_paths_composed': v[1]} for y, v in mp.items()}
    return c.finish()
