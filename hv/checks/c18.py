"""C18: each PDF box is filled from the line the official template assigns to it.

Oracle: hv.pdftemplate (XFA <speak> labels, AcroForm names / appearance states /
MaxLen), re-extracted from /repo's PDFs each run.

Symbolic part: for every group of check boxes that share a template parent and
a driving line, the real ButtonPDFField.value (including the mapping's
value_fn lambda) runs on a symbolic driving value (Bool / nullable enum member)
and z3 decides that no value switches two boxes on; needs_filing() runs on
symbolic line values to decide which forms can require filing.
Table part (finite domain, Q1): existence, label agreement, duplicates, export
values and length limits for every mapping.
"""
import importlib
import json
import os
import re
import time

from .. import common, instrument, symx, pdftemplate, summary
from .. import terms as tm

LABEL = re.compile(r'^(?:Page\s*\d+\.\s*)?(?:Part\s+[IVX\d ]+\.[^.]*?\.\s*)?(?:Line\s+)?(\d+[a-z]?)\b[.:]?\s')
LINE_NO = re.compile(r'^\d+[a-z]?$')


def exceptions():
    p = os.path.join(common.VERIF, 'oracle', 'pdf_label_exceptions.json')
    with open(p) as f:
        return json.load(f)


def label_of(speak):
    if not speak:
        return None
    m = LABEL.match(speak)
    return m.group(1) if m else None


def label_matches(line, speak):
    lab = label_of(speak)
    if lab is None:
        return None
    if lab == line:
        return True
    # "8. Other income: a. Net operating loss"  <->  line 8a
    if line.startswith(lab) and len(line) == len(lab) + 1 and re.search(r'[:.]\s*%s\.\s' % re.escape(line[-1]), speak):
        return True
    return False


try:
    with open(os.path.join(common.VERIF, 'oracle', 'exclusive_pairs.json')) as _f:
        XPAIRS = json.load(_f)['groups']
except Exception:
    XPAIRS = {}


def year_task(year):
    instrument.install()
    cat = summary.Catalogue(year)
    P = importlib.import_module('habutax.pdf_fields')
    F = cat.hab_fields
    exc = exceptions()
    res = {'year': year, 'obl': [], 'viol': [], 'mappings': 0, 'labelled': 0, 'unlabelled': 0, 'groups': 0, 'paths': 0, 'samples': []}

    def V(key, what, replay=None):
        res['viol'].append({'key': key, 'what': what, 'replay': replay or {'kind': 'pdfmap', 'year': year, 'key': key}})

    for cls in cat.classes:
        insts = cat.default_instances(cls)
        full = cls.form_name if insts[0] is None else '%s:%s' % (cls.form_name, insts[0])
        f = cat.form(full)
        # ---- can this form require filing?  (symbolic needs_filing)
        ex = symx.Explorer(timeout_ms=10000, max_paths=5000)
        can_file = False
        sv = summary.SymValues(cat)
        try:
            for p in ex.explore(lambda: f.needs_filing(cat.hab_form.FormAccessor(sv, f))):
                res['paths'] += 1
                if p.exc is None and not p.cut and not p.unsupported:
                    out = p.outcome
                    if out is True or (isinstance(out, symx.SymBool)):
                        can_file = True
                elif p.exc is not None and not isinstance(p.exc, NotImplementedError):
                    can_file = True
        except Exception as e:
            can_file = True
        pdf_fields = list(f.pdf_fields())
        if can_file:
            ok = bool(f.pdf_file()) and os.path.exists(f.pdf_file() or '') and len(pdf_fields) > 0
            res['obl'].append(('ty%d/%s/has-template' % (year, cls.form_name), 'unsat' if ok else 'sat', 0.0))
            if not ok:
                V('ty%d:%s:no-template' % (year, cls.form_name), 'form %s can require filing but has no template / mappings' % cls.form_name)
        if not pdf_fields or not f.pdf_file():
            continue
        acro = pdftemplate.load_acroform(f.pdf_file())
        xfa = pdftemplate.load_xfa(f.pdf_file()) or []
        speak = {d['name']: d for d in xfa}
        seen_targets = {}
        groups = {}
        pairs = {}
        for pf in pdf_fields:
            res['mappings'] += 1
            tgt = pf.pdf_field_name
            ln = pf.field_name
            key = 'ty%d:%s:%s' % (year, cls.form_name, tgt)
            # T1 target exists
            a = acro.get(tgt)
            res['obl'].append(('ty%d/%s/exists/%s' % (year, cls.form_name, tgt), 'unsat' if (a and a['terminal']) else 'sat', 0.0))
            if not a or not a['terminal']:
                V(key + ':missing', 'mapping of line %s targets %s which does not exist in %s' % (ln, tgt, os.path.basename(f.pdf_file())))
                continue
            # T3 duplicates
            if tgt in seen_targets:
                V(key + ':duplicate', 'template field %s is driven by two mappings (lines %s and %s)' % (tgt, seen_targets[tgt], ln))
            seen_targets[tgt] = ln
            # T4 mapped line exists
            qual = ln if '.' in ln else '%s.%s' % (f.name(), ln)
            try:
                fld = cat.field(qual)
            except Exception:
                fld = None
                V(key + ':no-line', 'mapping for %s names line %s which does not exist' % (tgt, qual))
            # T2 label
            sp = (speak.get(tgt) or {}).get('speak')
            if LINE_NO.match(ln) and sp:
                lm = label_matches(ln, sp)
                if lm is None:
                    res['unlabelled'] += 1
                else:
                    res['labelled'] += 1
                    ekey = '%d:%s:%s' % (year, cls.form_name, tgt)
                    allowed = ekey in exc['allowed'] or '*:%s:%s->%s' % (cls.form_name, label_of(sp), ln) in exc['allowed']
                    if not lm and not allowed:
                        V(key + ':label', 'template labels %s as line %s ("%s") but it is filled from line %s' % (tgt, label_of(sp), sp[:70], ln))
                    res['obl'].append(('ty%d/%s/label/%s' % (year, cls.form_name, tgt), 'unsat' if (lm or allowed) else 'sat', 0.0))
            else:
                res['unlabelled'] += 1
            # T6 export values / limits
            if isinstance(pf, P.ButtonPDFField):
                if a['ft'] != 'Btn':
                    V(key + ':kind', 'check-box mapping targets a non-button field %s' % tgt)
                elif a['states'] and pf._true_value not in a['states']:
                    V(key + ':export', 'check box %s is switched on with export value %r but the template only knows %s' % (tgt, pf._true_value, a['states']))
                base = re.sub(r'\[\d+\]$', '', tgt)
                groups.setdefault((base, ln), []).append(pf)
                # AcroForm-only templates (NC): a yes/no pair of boxes shares its name stem
                ym = re.match(r'^(.*?)(yes|no)$', tgt, re.I)
                if ym:
                    pairs.setdefault(ym.group(1), []).append((pf, ln))
            elif isinstance(pf, P.TextPDFField):
                lim = a['maxlen'] if a['maxlen'] is not None else (speak.get(tgt) or {}).get('max_chars')
                if lim is not None and pf.max_length is not None and pf.max_length != lim:
                    V(key + ':maxlen', 'text box %s: mapping allows %s characters, template %s' % (tgt, pf.max_length, lim))
                if lim is not None and pf.max_length is None and pf._value_fn is None and fld is not None and isinstance(fld, F.StringField):
                    V(key + ':maxlen-missing', 'text box %s holds at most %s characters in the template but the mapping of text line %s has no limit' % (tgt, lim, ln))
                if a['ft'] not in ('Tx', None):
                    V(key + ':kind', 'text mapping targets non-text field %s (%s)' % (tgt, a['ft']))
            elif isinstance(pf, P.ChoicePDFField):
                if a['opts'] and any(c not in a['opts'] for c in pf._choices if c != ''):
                    V(key + ':choices', 'choice mapping %s offers values the template does not list' % tgt)
        # ---- yes/no pairs must be driven by one line (and are then checked for exclusivity below)
        for stem, lst in pairs.items():
            if len(lst) == 2:
                (pa, la), (pb, lb) = lst
                ok = la == lb
                res['obl'].append(('ty%d/%s/yes-no-pair/%s' % (year, cls.form_name, stem), 'unsat' if ok else 'sat', 0.0))
                if not ok:
                    V('ty%d:%s:%s:pair' % (year, cls.form_name, stem), 'the yes/no boxes %s / %s are driven by different lines (%s / %s)' % (pa.pdf_field_name, pb.pdf_field_name, la, lb))
                else:
                    groups.setdefault((stem + '(yes/no)', la), [])
                    for pf_, _ in lst:
                        if pf_ not in groups[(stem + '(yes/no)', la)]:
                            groups[(stem + '(yes/no)', la)].append(pf_)
        # ---- reviewed pairs of AcroForm-only templates (oracle/exclusive_pairs.json): one driving line, then exclusivity
        byname = {}
        for pf in pdf_fields:
            if isinstance(pf, P.ButtonPDFField):
                byname.setdefault(pf.pdf_field_name, []).append(pf)
        for grp in XPAIRS.get(str(year), {}).get(cls.form_name, []):
            if not all(g in byname for g in grp):
                continue
            lines_ = sorted(set(pf.field_name for g in grp for pf in byname[g]))
            ok = len(lines_) == 1
            res['obl'].append(('ty%d/%s/box-pair/%s' % (year, cls.form_name, '+'.join(grp)), 'unsat' if ok else 'sat', 0.0))
            if not ok:
                V('ty%d:%s:%s:pair' % (year, cls.form_name, '+'.join(grp)), 'the boxes %s belong together but are driven by different lines %s' % (grp, lines_))
            else:
                gl = groups.setdefault(('+'.join(grp), lines_[0]), [])
                for g in grp:
                    for pf in byname[g]:
                        if pf not in gl:
                            gl.append(pf)
        # ---- symbolic: exclusivity within groups of boxes sharing a parent and a driving line
        for (base, ln), pfs in groups.items():
            if len(pfs) < 2:
                continue
            qual = ln if '.' in ln else '%s.%s' % (f.name(), ln)
            try:
                fld = cat.field(qual)
            except Exception:
                continue
            res['groups'] += 1
            ex = symx.Explorer(timeout_ms=10000, max_paths=2000)
            t0 = time.time()

            def body():
                if isinstance(fld, F.BooleanField):
                    v = symx.fresh_bool('drv')
                elif isinstance(fld, F.EnumField):
                    v = symx.fresh_enum(fld.enum(), 'drv', nullable=True)
                elif isinstance(fld, F.IntegerField):
                    v = symx.fresh_int('drv', -5, 50)
                else:
                    raise symx.Unsupported('driver type %s' % type(fld).__name__)
                return [pf.value(v, fld) for pf in pfs]
            bad = None
            npaths = 0
            for p in ex.explore(body):
                npaths += 1
                res['paths'] += 1
                if p.exc is not None or p.cut or p.unsupported:
                    res['obl'].append(('ty%d/%s/exclusive/%s' % (year, cls.form_name, base), 'unknown', 0.0))
                    continue
                on = [x for x in p.outcome if x != 'Off']
                if len(on) > 1:
                    bad = (p, on)
            res['obl'].append(('ty%d/%s/exclusive/%s(%s)' % (year, cls.form_name, base, ln), 'sat' if bad else 'unsat', time.time() - t0))
            if len(res['samples']) < 3:
                res['samples'].append({'obligation': 'exclusive group %s driven by %s' % (base, qual), 'boxes': [pf.pdf_field_name for pf in pfs], 'paths': npaths, 'result': 'sat' if bad else 'unsat'})
            if bad:
                V('ty%d:%s:%s:exclusive' % (year, cls.form_name, base), 'boxes of group %s driven by line %s can be on together: %s' % (base, qual, bad[1]))
    return res


def run(tier):
    c = common.Check('C18', tier, 'symbolic execution of the real ButtonPDFField.value / mapping lambdas on a symbolic driving value per check-box group and of needs_filing() on symbolic line values (z3 decides exclusivity / fileability); finite-domain table checks of every mapping against the field tree parsed from the bundled PDFs',
                     ['habutax.pdf_fields.ButtonPDFField.value / TextPDFField / ChoicePDFField', 'pdf_fields lists and value_fn lambdas of every form (all years)', 'Form.needs_filing of every form'])
    c.bounds = {'years': [2021, 2022, 2023], 'mappings': 'all', 'driving_values': 'every Bool / every enum member and None / ints -5..50'}
    c.outside = ['template fields whose accessibility text carries no line number (counted as unlabelled)', 'lengths of free-text values (C19)']
    c.assumptions = ['oracle/pdf_label_exceptions.json lists reviewed label deviations', '(Q1) the table part is a finite-domain comparison; only group exclusivity and fileability are solver-decided']
    results = common.pmap(year_task, [2021, 2022, 2023])
    for r in results:
        c.paths += r['paths']
        for nm, res, dt in r['obl']:
            c.obligation(nm, res, dt)
        c.samples.extend(r['samples'][:2])
        for v in r['viol']:
            c.violation(v['key'], v['what'], v['replay'])
        c.extra.setdefault('per_year', {})[str(r['year'])] = {'mappings': r['mappings'], 'labelled_fields_checked': r['labelled'], 'without_line_label': r['unlabelled'], 'exclusive_groups': r['groups']}
    if sum(r['mappings'] for r in results) < 1000:
        c.inconclusive.append('vacuity: fewer than 1000 mappings seen')
    return c.finish()
