"""C02: every computed line equals what the official form instructs for it.

Oracle: hv.instructions parses the per-line instruction out of the bundled IRS
templates' accessibility text (re-extracted each run) plus a reviewed
transcription file for wording the grammar cannot read.  For each instructed
line the whole-return model (composition of the real line functions executed
symbolically) is asked for a solved return in which the stored line differs
from the instruction applied to the other stored lines by more than the
rounding tolerance; unsat = equal for every input inside the bound.  Witnesses
are replayed through the real Solver.
"""
import importlib
import json
import os
import re
import time
from fractions import Fraction

from .. import common, retmodel, instructions, pdftemplate, instrument
from .. import terms as tm

TOL = Fraction(51, 10000)
LINE_NO = re.compile(r'^\d+[a-z]?$')


def overrides():
    p = os.path.join(common.VERIF, 'oracle', 'instruction_overrides.json')
    with open(p) as f:
        return json.load(f)


def collect(year):
    """(form, line) -> (expr, text) for every mapped line whose instruction parses."""
    instrument.install()
    forms = importlib.import_module('habutax.forms')
    P = importlib.import_module('habutax.pdf_fields')
    ov = overrides()
    out = {}
    stats = {'mapped_numeric_lines': 0, 'with_text': 0, 'parsed': 0, 'skipped_override': 0}
    for cls in forms.available_forms[year]:
        insts = getattr(cls, 'valid_instances', [None])
        f = cls(instance=insts[0])
        if not f.pdf_file():
            continue
        x = pdftemplate.load_xfa(f.pdf_file())
        if not x:
            continue
        speak = {d['name']: d['speak'] for d in x}
        order = []
        texts = {}
        for pf in f.pdf_fields():
            if not isinstance(pf, P.TextPDFField) or not LINE_NO.match(pf.field_name):
                continue
            if pf.field_name not in order:
                order.append(pf.field_name)
            sp = speak.get(pf.pdf_field_name)
            if sp and pf.field_name not in texts:
                texts[pf.field_name] = sp
        # template order of the labels: re-sort by the position of the template field
        pos = {d['name']: k for k, d in enumerate(x)}
        first = {}
        for pf in f.pdf_fields():
            if isinstance(pf, P.TextPDFField) and LINE_NO.match(pf.field_name) and pf.pdf_field_name in pos:
                first.setdefault(pf.field_name, pos[pf.pdf_field_name])
        order.sort(key=lambda ln: first.get(ln, 10 ** 9))
        for ln, sp in texts.items():
            stats['mapped_numeric_lines'] += 1
            stats['with_text'] += 1
            key = '%s.%s' % (cls.form_name, ln)
            o = ov['lines'].get('%d:%s' % (year, key)) or ov['lines'].get('*:%s' % key)
            if o is not None:
                if o.get('skip'):
                    stats['skipped_override'] += 1
                    continue
                expr = tuple(o['expr'])
                if expr[0] == 'add':
                    expr = ('add', list(expr[1]))
                elif expr[0] == 'sub':
                    expr = ('sub', expr[1], expr[2], bool(expr[3]))
                elif expr[0] == 'guard0':
                    expr = ('guard0', expr[1], tuple(expr[2]))
                out[(cls.form_name, ln)] = (expr, o.get('text', sp), insts)
                stats['parsed'] += 1
                continue
            lab, body = instructions.strip_label(sp)
            if lab is None:
                continue
            expr = instructions.parse(body, order)
            if expr is not None:
                out[(cls.form_name, ln)] = (expr, sp, insts)
                stats['parsed'] += 1
    return out, stats


def task(arg):
    year, K, S, items, forms_req, thorough = arg
    os.environ['HV_PROCS'] = '1'
    lf = retmodel.Lifter(year, K, S, forms_req, ft='uf', timeout_ms=30000)
    rm = lf.rm
    res = {'year': year, 'obl': [], 'viol': [], 'samples': [], 'uncovered': [], 'twins': {}, 'always_zero': []}
    res['model_paths'] = sum(len(v) for v in rm.summ.values())
    res['model_lines'] = len(rm.summ)
    st = tm.var('i:1040.filing_status', 'I')
    members = [m.name for m in rm.cat.input('1040.filing_status').enum]

    def defined(name):
        try:
            rm.cat.field(name)
            return True
        except Exception:
            return False

    def val0(n):
        if n not in rm.summ or rm.lvar[n][0] != 'num' or rm.lvar[n][2] == 'bool':
            return None
        return tm.ite(rm.valued[n], rm.lvar[n][1], tm.R(0))
    for item in items:
        form, ln, expr, text, inst = item[:5]
        tol = Fraction(item[5]) if len(item) > 5 and item[5] else TOL
        fname = form if inst is None else '%s:%s' % (form, inst)
        L = '%s.%s' % (fname, ln)
        if L not in rm.summ or rm.lvar[L][0] != 'num':
            res['uncovered'].append((L, 'line not in the demand closure of %s' % forms_req))
            continue

        def op(x, other_form=None):
            n = '%s.%s' % (other_form or fname, x)
            v = val0(n)
            return v if v is not None else tm.R(0)
        class _Skip(Exception):
            pass

        def build(expr):
            k = expr[0]
            if k == 'add':
                E = tm.R(0)
                for x in expr[1]:
                    E = tm.add(E, op(x))
                return E
            if k == 'sub':
                E = tm.sub(op(expr[1]), op(expr[2]))
                return tm.max_(tm.R(0), E) if expr[3] else E
            if k == 'sub_ceil':
                d_ = tm.sub(op(expr[1]), op(expr[2]))
                step = tm.R(expr[3])
                up = tm.mul(step, tm.to_real(tm.neg(tm.floor(tm.neg(tm.div(d_, step))))))
                return tm.ite(tm.le(d_, tm.R(0)), tm.R(0), up)
            if k in ('mul_rate', 'mul_const'):
                return tm.mul(tm.R(expr[2]), op(expr[1]))
            if k in ('min', 'max'):
                return (tm.min_ if k == 'min' else tm.max_)(op(expr[1]), op(expr[2]))
            if k == 'min_const':
                cst = tm.ite(tm.eq(st, tm.I(members.index('MarriedFilingSeparately'))), tm.R(expr[2]['MarriedFilingSeparately']), tm.R(expr[2]['other']))
                return tm.min_(op(expr[1]), cst)
            if k == 'carry':
                return op(expr[1])
            if k == 'carry_form':
                src = '%s.%s' % (expr[1], expr[2])
                if src not in rm.summ and defined(src):
                    # the form defines the source line, yet no return in the closure ever computes it:
                    # is there a solved return in which the carrying line takes a value from elsewhere?
                    offending = []
                    for kk, p in enumerate(rm.summ[L]):
                        if p.kind == 'value' and (L, kk) in rm.sel and any(kind == 'read_line' for kind, nm_, _ in p.reads):
                            offending.append(rm.sel[(L, kk)])
                    if offending:
                        t1 = time.time()
                        r_, inputs_, m_ = lf.query([rm.solved, rm.valued[L], tm.or_(*offending)])
                        nm_ = 'ty%d/%s carries from %s (defined, never computed)' % (year, L, src)
                        res['obl'].append((nm_, r_, time.time() - t1))
                        if r_ == 'sat':
                            res['viol'].append({'key': 'ty%d:%s:carry-source' % (year, L), 'what': 'line %s takes its amount from another line although its instruction "%s" names %s, which the form defines but which is never computed' % (L, text[:90], src),
                                                'replay': {'kind': 'solve', 'year': year, 'forms': forms_req, 'inputs': inputs_, 'expect': {'kind': 'carry_trace', 'line': L, 'source': src}}})
                        raise _Skip()
                if '%s.%s' % (expr[1], expr[2]) not in rm.summ:
                    res['uncovered'].append((L, 'source %s.%s is not implemented' % (expr[1], expr[2])))
                    raise _Skip()
                return op(expr[2], expr[1])
            if k == 'guard0':
                return tm.ite(tm.le(op(expr[1]), tm.R(0)), tm.R(0), build(tuple(expr[2]) if isinstance(expr[2], list) else expr[2]))
            raise _Skip()
        try:
            E = build(expr)
        except _Skip:
            continue
        Lv = rm.lvar[L][1]
        bad = tm.or_(tm.lt(tm.R(tol), tm.sub(Lv, E)), tm.lt(tm.R(tol), tm.sub(E, Lv)))
        t1 = time.time()
        r, inputs, m = lf.query([rm.solved, rm.valued[L], bad] + lf.integral(lf.cone(L, 2)))
        dt = time.time() - t1
        nm = 'ty%d/%s = %s' % (year, L, json.dumps(expr, default=str)[:80])
        res['obl'].append((nm, r, dt))
        if len(res['samples']) < 2:
            res['samples'].append({'obligation': nm, 'instruction_text': text[:140], 'query': 'exists inputs: solved and |%s - instruction(other lines)| > %s' % (L, float(tol)), 'result': r})
        if r == 'sat':
            ev = float(lf.mv(m, E))
            lv = float(lf.mv(m, Lv))
            res['viol'].append({'key': 'ty%d:%s' % (year, L), 'what': 'line %s is %s but its instruction "%s" gives %s on the other lines of the same solution' % (L, lv, text[:90], ev),
                                'replay': {'kind': 'solve', 'year': year, 'forms': forms_req, 'inputs': inputs, 'expect': {'kind': 'instruction', 'line': L, 'form': fname, 'expr': json.loads(json.dumps(expr, default=str)), 'tol': str(tol)}}})
        # reachability twin (thorough tier): the line can be valued and non-zero in a solved return
        if thorough:
            r0, _, _ = lf.query([rm.solved, rm.valued[L], tm.lt(tm.R(1), Lv)], want_inputs=False)
            res['twins'][r0] = res['twins'].get(r0, 0) + 1
            if r0 == 'unsat':
                res['always_zero'].append(L)
    return res


def run(tier):
    K, S = (1, 2) if tier == 'quick' else (2, 3)
    c = common.Check('C02', tier, 'SMT queries on the whole-return model composed from path-exhaustive symbolic summaries of the real line definitions: "solved and line differs from its official instruction applied to the other lines" must be unsat; instructions parsed from the bundled templates',
                     ['Field.value of every line in the demand closure of Form 1040 and of Form 1040 + NC D-400 (all years)', 'hv.instructions grammar over the XFA accessibility text of habutax/forms/ty*/f*.pdf'])
    c.bounds = {'years': [2021, 2022, 2023], 'requested_forms': [['1040'], ['1040', 'nc_d-400']], 'copies_per_input_form': K, 'copies_total': S, 'amounts': '|x| <= 1e8, whole cents', 'tolerance': '0.0051 (half a cent + eps)'}
    c.outside = ['lines whose template text the grammar does not parse and that have no reviewed transcription (counted below)', 'text-valued lines, per-payer rows', 'forms without a machine-readable template text: worksheets and NC schedules are not covered; NC D-400 itself is covered by a cited transcription of 15 computed lines', 'products of two lines (Form 8606 lines 11/12)']
    c.assumptions = ['the accessibility text of the bundled template is the official instruction', 'oracle/instruction_overrides.json: reviewed transcriptions / exclusions', 'a blank (undemanded) operand line counts as 0']
    retmodel.preload([(y, K, {'S': S, 'ft': 'uf', 'cents': True}) for y in (2021, 2022, 2023)])
    os.environ['HV_PRELOADED'] = '1'
    tasks = []
    cov = {}
    for y in (2021, 2022, 2023):
        parsed, stats = collect(y)
        cov[str(y)] = stats
        items = []
        for (form, ln), (expr, text, insts) in sorted(parsed.items()):
            for inst in (insts if insts != [None] else [None]):
                items.append((form, ln, expr, text, inst))
        n = 5
        for i in range(n):
            tasks.append((y, K, S, items[i::n], ['1040'], tier == 'thorough'))
    # forms without machine-readable template text: cited transcriptions (oracle/instruction_overrides.json)
    anchored, cited_only, unanchored = [0], [0], []
    for form, tr in overrides().get('transcriptions', {}).items():
        for y in tr['years']:
            items = []
            tpl = os.path.join(instrument.REPO, 'habutax', 'forms', 'ty%d' % y, tr['template']) if tr.get('template') else None
            ptext = pdftemplate.page_text(tpl) if tpl and os.path.exists(tpl) else ''
            for ln, alts in sorted(tr['lines'].items()):
                for o in alts:
                    if o.get('years') and y not in o['years']:
                        continue
                    if o.get('anchor'):
                        if o['anchor'] in ptext:
                            anchored[0] += 1
                        else:
                            unanchored.append('ty%d %s.%s: anchor %r not found in the page text of %s' % (y, form, ln, o['anchor'], tr.get('template')))
                            continue
                    else:
                        cited_only[0] += 1
                    expr = tuple(o['expr'])
                    if expr[0] == 'add':
                        expr = ('add', list(expr[1]))
                    elif expr[0] == 'sub':
                        expr = ('sub', expr[1], expr[2], bool(expr[3]))
                    elif expr[0] == 'guard0':
                        expr = ('guard0', expr[1], tuple(expr[2]))
                    items.append((form, ln, expr, o['text'], None, o.get('tol')))
            cov.setdefault(str(y), {})['transcribed_%s' % form] = len(items)
            n = 3
            for i in range(n):
                tasks.append((y, K, S, items[i::n], tr['requested_forms'], tier == 'thorough'))
    c.extra['coverage_of_instruction_oracle'] = cov
    c.extra['transcribed_instructions'] = {'anchored_in_bundled_template_text': anchored[0], 'cited_only': cited_only[0], 'anchor_not_found': unanchored}
    for u in unanchored:
        c.inconclusive.append('transcription not anchored: ' + u)
    results = common.pmap(task, tasks)
    unc = []
    mp = {}
    for r in results:
        mp[r['year']] = max(mp.get(r['year'], (0, 0)), (r.get('model_lines', 0), r.get('model_paths', 0)))
        for nm, res, dt in r['obl']:
            c.obligation(nm, res, dt)
        for k_, n_ in r['twins'].items():
            c.extra.setdefault('reachability_twins', {})[k_] = c.extra.get('reachability_twins', {}).get(k_, 0) + n_
        c.extra.setdefault('instructed_lines_always_zero_in_solved_returns', []).extend(r['always_zero'])
        c.samples.extend(r['samples'][:1])
        unc.extend('%d %s: %s' % (r['year'], a, b) for a, b in r['uncovered'])
        for v in r['viol']:
            out = common.run_real(['solve'], v['replay'])
            c.replays_run += 1
            if out.get('reproduced'):
                c.violation(v['key'], v['what'] + ' [real solve: %s]' % out.get('detail'), v['replay'])
            else:
                c.spurious += 1
                c.inconclusive.append('witness did not reproduce: %s (%s)' % (v['key'], out.get('detail')))
    c.extra['instructed_lines_not_reachable_or_unimplemented_source'] = sorted(set(unc))[:80]
    c.paths += sum(v[1] for v in mp.values())
    c.extra['whole_return_model'] = {str(y): {'lines': v[0], 'symbolic_paths_composed': v[1]} for y, v in mp.items()}
    return c.finish()
