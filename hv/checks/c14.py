"""C14: a written solution reads back to exactly the values that were solved.

Typed layer, symbolic: for every field class the real to_string / from_string
pair runs on a symbolic value of the line's type (money on its 10^-places
grid rendered digit by digit, parsed back by the float() DFA; ints likewise;
both bools; every enum member and None); z3 must show from_string(to_string(v))
== v on every path.  The year tag and the INI layer (real configparser) are
covered on solver-generated witness solutions run through the real
solve -> write -> fill_pdfs path with a recording pdftk stub.
"""
import importlib
import os
import time

import z3

from .. import common, instrument, symx, rt, bstr
from .. import terms as tm
from ..terms import I


class FakeForm(object):
    def name(self):
        return 'frm'


def task(arg):
    fname, places, D = arg
    instrument.install()
    F = importlib.import_module('habutax.fields')
    E = importlib.import_module('habutax.enum')
    en = E.make('Color', {'red': 'r', 'green': 'g', 'Blue_2': 'b'})
    res = {'field': fname, 'places': places, 'paths': 0, 'obl': [], 'viol': [], 'samples': [], 'solver_s': 0.0}
    ex = symx.Explorer(timeout_ms=30000, max_paths=5000)
    holder = {}

    def body():
        fn = lambda s, i, v: None
        if fname == 'BooleanField':
            fld = F.BooleanField('ln', fn)
            v = symx.fresh_bool('v')
        elif fname == 'IntegerField':
            fld = F.IntegerField('ln', fn)
            fld._type = rt.int_        # int(text) on a symbolic string: grammar DFA stub
            v = symx.fresh_int('v', -(10 ** D) + 1, 10 ** D - 1)
        elif fname == 'FloatField':
            fld = F.FloatField('ln', fn, places=places)
            v = symx.fresh_money('v', places=places, lo=-(10 ** D) + 1, hi=10 ** D - 1)
        elif fname == 'EnumField':
            fld = F.EnumField('ln', en, fn)
            v = symx.fresh_enum(en, 'v', nullable=True)
        else:
            fld = F.StringField('ln', fn)
            fld._type = rt.str_
            v = bstr.BStr.fresh('v', 4, printable=True)
        fld.__form_init__(FakeForm())
        holder['v'] = v
        text = fld.to_string(v)
        back = fld.from_string(text)
        return (text, back)
    old_flag, old_hook = rt.PRECISE_NUM_STR, rt._fmt_hook
    rt.PRECISE_NUM_STR, rt._fmt_hook = True, bstr.format_number
    chk = z3.Solver()
    chk.set('timeout', 30000)
    try:
        for p in ex.explore(body):
            res['paths'] += 1
            nm = '%s/p%s/path%d' % (fname, places, res['paths'])
            if p.cut:
                res['obl'].append((nm + '/outside-bound', 'unsat', 0.0))
                continue
            if p.unsupported or p.exc is not None:
                res['obl'].append((nm, 'unknown', 0.0))
                res['viol'].append({'key': None, 'what': 'path not evaluated: %s' % (p.unsupported or repr(p.exc))})
                continue
            text, back = p.outcome
            v = holder['v']
            if isinstance(v, symx.SymEnum):
                neq = tm.not_(v._eq_term(back))
            elif isinstance(v, bstr.BStr):
                neq = tm.not_(v._eq_term(back)) if isinstance(back, (str, bstr.BStr)) else tm.TRUE
            else:
                a, b = symx._lift(v), symx._lift(back)
                neq = tm.TRUE if b is None or a[1] is not b[1] else tm.ne(a[0], b[0])
            # fresh solver per obligation: z3's incremental mode returned a spurious
            # model on the div/mod digit chain once (caught by the replay)
            chk = z3.Solver()
            chk.set('timeout', 30000)
            for r_ in p.decisions:
                chk.add(tm.to_z3(r_.term if r_.value else tm.not_(r_.term)))
            chk.add(tm.to_z3(neq))
            t0 = time.time()
            r = str(chk.check())
            dt = time.time() - t0
            wit = None
            if r == 'sat':
                m = chk.model()
                if isinstance(v, symx.Sym):
                    wit = str(tm.model_value(m, v.term))
                elif isinstance(v, symx.SymEnum):
                    wit = str(tm.model_value(m, v.term))
                else:
                    wit = v.model_text(m)
            res['solver_s'] += dt
            res['obl'].append((nm, r, dt))
            if r == 'sat':
                res['viol'].append({'key': '%s:%s:roundtrip' % (fname, places), 'what': 'value %s does not read back to itself' % wit, 'wit': wit})
            if len(res['samples']) < 2:
                res['samples'].append({'obligation': nm, 'text': text.concrete() if isinstance(text, bstr.BStr) else repr(text)[:60], 'query': 'exists v on this path: from_string(to_string(v)) != v', 'result': r})
    finally:
        rt.PRECISE_NUM_STR, rt._fmt_hook = old_flag, old_hook
    return res


def witness_task(year):
    """solve -> write solution -> fill_pdfs on a solver-generated return: every
    value reads back (INI layer + year tag)."""
    from .. import retmodel
    os.environ['HV_PROCS'] = '1'
    lf = retmodel.Lifter(year, 1, 2, ['1040'], ft='ref')
    r, inputs, m = lf.query([lf.rm.solved, tm.eq(tm.var('i:1040.number_w-2', 'I'), I(1))])
    if r != 'sat':
        return {'year': year, 'ok': None, 'detail': 'no witness'}
    out = common.run_real(['solution_roundtrip'], {'year': year, 'forms': ['1040'], 'inputs': inputs})
    out['year'] = year
    return out


def run(tier):
    D = 8 if tier == 'quick' else 12
    c = common.Check('C14', tier, 'bounded symbolic execution of the real to_string/from_string pairs on symbolic values (digit-wise rendering, float()/int() DFAs) with z3 deciding from_string(to_string(v)) == v per path; the INI layer and year tag on solver-generated witness solutions through the real solve/write/fill path',
                     ['habutax.fields.{Boolean,Integer,Float,Enum,String}Field.to_string/from_string', 'habutax.values.ValueStore.to_config', 'habutax.pdf_filler.PDFFiller._read_form_fields', 'habutax.fill_pdfs / habutax.solve (witnesses)'])
    c.bounds = {'money': 'every grid value |x| < 1e%d for places 0, 2, 5' % D, 'ints': '|n| < 1e%d' % D, 'bools': 'both', 'enums': 'every member and None', 'text': 'printable ASCII up to 4 characters (typed layer: identity)'}
    c.outside = ['values >= 1e%d (rendering bound); values >= 1e16 where the cent grid is not representable in a double' % D, 'non-finite values (C11)', 'INI text layer for arbitrary strings: covered on witnesses only (configparser is a regex parser)', 'negative zero']
    c.stubs = ['IntegerField/StringField._type (int / str) replaced by the DFA / identity stubs when applied to a symbolic string', "f'{x:.Nf}' and str(int): exact decimal rendering of a grid value"]
    instrument.install()
    tasks = [('BooleanField', None, D), ('IntegerField', None, D), ('EnumField', None, D), ('StringField', None, D), ('FloatField', 0, D), ('FloatField', 2, D), ('FloatField', 5, D)]
    results = common.pmap(task, tasks)
    for r in results:
        c.paths += r['paths']
        c.solver_s += r['solver_s']
        for nm, res, dt in r['obl']:
            c.obligation(nm, res, dt)
        c.samples.extend(r['samples'][:1])
        for v in r['viol']:
            if v['key'] is None:
                c.inconclusive.append('%s: %s' % (r['field'], v['what']))
                continue
            rep = {'kind': 'field_roundtrip', 'field': r['field'], 'places': r['places'], 'value': v['wit']}
            out = common.run_real(['field_roundtrip'], rep)
            c.replays_run += 1
            if out.get('reproduced'):
                c.violation('C14:' + v['key'], v['what'] + ' [real code: %s]' % out.get('detail'), rep)
            else:
                c.spurious += 1
                c.inconclusive.append('witness did not reproduce: %s %s (%s)' % (v['key'], v['wit'], out.get('detail')))
    from .. import retmodel
    years = [2023] if tier == 'quick' else [2021, 2022, 2023]
    retmodel.preload([(y, 1, {'S': 2, 'ft': 'ref', 'cents': True}) for y in years])
    os.environ['HV_PRELOADED'] = '1'
    for w in common.pmap(witness_task, years):
        nm = 'ty%d/witness-solution-roundtrip' % w['year']
        if w.get('ok') is None:
            c.obligation(nm, 'unknown', 0.0)
            continue
        c.obligation(nm, 'unsat' if w['ok'] else 'sat', 0.0, sample={'obligation': nm, 'lines_compared': w.get('compared'), 'year_tag': w.get('year_tag')})
        if not w['ok']:
            c.violation('C14:ty%d:solution-roundtrip' % w['year'], 'written solution does not read back: %s' % w.get('detail'), {'kind': 'solution_roundtrip', 'year': w['year'], 'forms': ['1040'], 'inputs': w.get('inputs', {}), 'expect': 'mismatch'})
    return c.finish()
