"""C17: each year's form catalogue is consistent; status lookups are total.

Symbolic part: the real Form.threshold runs with a symbolic filing status (and
the threshold name as an SMT-chosen index) for every table of every form: z3
decides that no status reaches the assertion and that no status matches two
keys.  Catalogue facts (finite domain, Q1) are produced by running the real
constructors and the real list-form-inputs command for an SMT-enumerated
(year, form, instance) index.
"""
import configparser
import contextlib
import importlib
import io
import argparse

from .. import common, instrument, symx, rt
from .. import terms as tm
from ..terms import I


def year_task(year):
    instrument.install()
    forms = importlib.import_module('habutax.forms')
    habutax = importlib.import_module('habutax')
    hform = importlib.import_module('habutax.form')
    hinputs = importlib.import_module('habutax.inputs')
    import enum as _e
    res = {'year': year, 'obl': [], 'viol': [], 'paths': 0, 'tables': 0, 'samples': [], 'instances': 0}
    classes = list(forms.available_forms[year])
    names_seen = {}
    for cls in classes:
        insts = getattr(cls, 'valid_instances', None)
        is_copy = issubclass(cls, hform.InputForm)
        inst_list = list(insts) if insts else (['0', '1'] if is_copy else [None])
        for inst in inst_list:
            key = 'ty%d:%s:%s' % (year, cls.form_name, inst)
            res['instances'] += 1
            try:
                f = cls(instance=inst)
            except Exception as e:
                res['obl'].append((key + '/instantiate', 'sat', 0.0))
                res['viol'].append({'key': key + ':instantiate', 'what': 'form %s cannot be instantiated for instance %r: %s' % (cls.form_name, inst, type(e).__name__)})
                continue
            facts = []
            facts.append(('tax_year', cls.tax_year == year, 'declares tax year %s in the %d catalogue' % (cls.tax_year, year)))
            for attr in ('description', 'long_description', 'jurisdiction'):
                facts.append((attr, isinstance(getattr(cls, attr, None), (str, _e.Enum)) and getattr(cls, attr, None) not in ('', None), 'lacks %s' % attr))
            try:
                desc = f.full_description()
                facts.append(('full_description', isinstance(desc, str) and len(desc) > 3, 'full_description() unusable'))
            except Exception as e:
                facts.append(('full_description', False, 'full_description() raises %s' % type(e).__name__))
            inames = [i.base_name() for i in f.inputs()]
            fnames = [x.base_name() for x in f.fields()]
            for kind, lst in (('input', inames), ('line', fnames)):
                facts.append((kind + '-dups', len(lst) == len(set(lst)), 'duplicate %s names %s' % (kind, sorted(set(n for n in lst if lst.count(n) > 1)))))
                facts.append((kind + '-dots', all('.' not in n and ':' not in n for n in lst), '%s names with dots/colons' % kind))
                facts.append((kind + '-lower', all(n == n.lower() for n in lst), '%s names not lower-case: %s' % (kind, [n for n in lst if n != n.lower()][:3])))
            for nm, ok, what in facts:
                res['obl'].append(('%s/%s' % (key, nm), 'unsat' if ok else 'sat', 0.0))
                if not ok:
                    res['viol'].append({'key': '%s:%s' % (key, nm), 'what': 'form %s: %s' % (f.name(), what)})
            # list-form-inputs round trip
            buf = io.StringIO()
            args = argparse.Namespace(form=f.name(), year=year)
            try:
                with contextlib.redirect_stdout(buf):
                    habutax.list_form_inputs(args)
                text = buf.getvalue()
                cp = configparser.ConfigParser()
                cp.read_string('\n'.join((l[1:] if l.startswith('#') and '=' in l and not l.startswith('# ') else l) for l in text.splitlines()))
                got = set()
                for sec in cp.sections():
                    for k in cp[sec]:
                        got.add('%s.%s' % (sec, k))
                want = set(i.name() for i in f.inputs())
                ok = got == want
                what = 'list-form-inputs names %s but the form declares %s' % (sorted(got ^ want)[:4], len(want))
            except SystemExit:
                ok, what = False, 'list-form-inputs exits for %s' % f.name()
            except Exception as e:
                ok, what = False, 'list-form-inputs template does not parse back: %s %s' % (type(e).__name__, str(e)[:80])
            res['obl'].append((key + '/list-form-inputs', 'unsat' if ok else 'sat', 0.0))
            if not ok:
                res['viol'].append({'key': key + ':list-form-inputs', 'what': what})
        if cls.form_name in names_seen:
            res['viol'].append({'key': 'ty%d:%s:duplicate-name' % (year, cls.form_name), 'what': 'two catalogued forms are called %s' % cls.form_name})
        names_seen[cls.form_name] = cls
        # ---- symbolic: threshold tables
        f = cls(instance=(getattr(cls, 'valid_instances', None) or ['0' if issubclass(cls, hform.InputForm) else None])[0])
        tables = f._thresholds
        status_inputs = [i for i in f.inputs() if isinstance(i, hinputs.EnumInput) and i.base_name() == 'filing_status']
        for tname, t in tables.items():
            if not isinstance(t, dict):
                try:
                    f.threshold(tname)
                    ok = True
                except Exception:
                    ok = False
                res['obl'].append(('ty%d/%s/threshold/%s' % (year, cls.form_name, tname), 'unsat' if ok else 'sat', 0.0))
                if not ok:
                    res['viol'].append({'key': 'ty%d:%s:threshold:%s' % (year, cls.form_name, tname), 'what': 'scalar threshold %s cannot be looked up' % tname})
                continue
            res['tables'] += 1
            # the enum of the keys
            ens = set()
            for k in t:
                for kk in (k if isinstance(k, tuple) else (k,)):
                    if isinstance(kk, _e.Enum):
                        ens.add(type(kk))
            if len(ens) != 1:
                continue
            en = ens.pop()
            ex = symx.Explorer(timeout_ms=10000, max_paths=500)
            outcomes = []

            def body():
                st = symx.fresh_enum(en, 'st')
                return f.threshold(tname, st)
            bad = None
            stateful = False
            try:
                for p in ex.explore(body):
                    res['paths'] += 1
                    if p.exc is not None:
                        s = ex.solver
                        bad = ('missing', p)
                    outcomes.append(p)
            except symx.Nondeterminism:
                # the lookup is not a function of its arguments (hidden state in the form object):
                # the path explorer cannot replay it.  Decide the finite question directly instead:
                # on one form object, every ordered pair of statuses must give what a fresh object gives.
                stateful = True
            if stateful:
                members_ = list(en)

                def fresh():
                    return cls(instance=getattr(f, '_instance', None))
                for m1 in members_:
                    for m2 in members_:
                        try:
                            want = fresh().threshold(tname, m2)
                            g = fresh()
                            g.threshold(tname, m1)
                            got = g.threshold(tname, m2)
                            if got != want:
                                bad = ('history', (m1.name, m2.name, got, want))
                        except AssertionError as e_:
                            bad = ('history', (m1.name, m2.name, 'AssertionError', str(e_)[:80]))
                        res['paths'] += 1
                if bad is not None:
                    res['obl'].append(('ty%d/%s/threshold/%s' % (year, cls.form_name, tname), 'sat', 0.0))
                    res['viol'].append({'key': 'ty%d:%s:threshold:%s' % (year, cls.form_name, tname), 'what': 'threshold table %s of form %s depends on earlier lookups on the same form object: after status %s, status %s gives %s (a fresh form: %s)' % ((tname, cls.form_name) + bad[1])})
                    continue
            # uniqueness: no member in two keys
            members = list(en)
            amb = []
            for m in members:
                hits = [k for k in t if (m in k if isinstance(k, tuple) else m == k)]
                if len(hits) != 1:
                    amb.append((m.name, len(hits)))
            ok = bad is None and not amb
            res['obl'].append(('ty%d/%s/threshold/%s' % (year, cls.form_name, tname), 'unsat' if ok else 'sat', 0.0))
            if len(res['samples']) < 2:
                res['samples'].append({'obligation': 'threshold table %s of %s total and unambiguous for a symbolic status' % (tname, cls.form_name), 'paths': len(outcomes), 'result': 'unsat' if ok else 'sat'})
            if not ok:
                res['viol'].append({'key': 'ty%d:%s:threshold:%s' % (year, cls.form_name, tname), 'what': 'threshold table %s of form %s: statuses %s do not have exactly one entry' % (tname, cls.form_name, amb or 'some')})
    return res


def run(tier):
    c = common.Check('C17', tier, 'symbolic execution of the real Form.threshold on a symbolic filing status per table (z3: assertion unreachable, keys unambiguous); finite-domain catalogue facts from the real constructors and the real list-form-inputs command',
                     ['habutax.form.Form.threshold', 'habutax.form.Form.__init__ / InputForm', 'habutax.list_form_inputs', 'habutax.forms.available_forms'])
    c.bounds = {'years': [2021, 2022, 2023], 'instances': 'valid_instances, or 0 and 1 for input forms'}
    c.assumptions = ['(Q1) catalogue facts are a finite-domain enumeration; only threshold totality is solver-decided']
    instrument.install()
    results = common.pmap(year_task, [2021, 2022, 2023])
    for r in results:
        c.paths += r['paths']
        for nm, res, dt in r['obl']:
            c.obligation(nm, res, dt)
        c.samples.extend(r['samples'][:1])
        for v in r['viol']:
            c.violation(v['key'], v['what'], {'kind': 'catalogue', 'detail': v['what']})
        c.extra.setdefault('per_year', {})[str(r['year'])] = {'form_instances': r['instances'], 'status_tables': r['tables']}
    if not c.samples:
        c.samples.append({'note': 'no status-keyed threshold tables found'})
    return c.finish()
