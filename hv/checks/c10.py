"""C10: every name a form definition can refer to resolves.

Every line of every shipped form (all years; copy forms up to K instances) is
executed symbolically to path exhaustion (hv.summary).  A feasible path that
ends in an unknown input / unknown line / unknown (not deliberately absent)
form / AttributeError, NameError, KeyError, AssertionError ... is a candidate;
it is lifted through the whole-return model (hv.retmodel: solver finds inputs
under which the real Solver reaches that path) and replayed on the
uninstrumented code.  Only replayed crashes are reported.
"""
import json
import os
import time

import z3

from .. import common, retmodel, summary
from .. import terms as tm

NAME_ERRORS = ('AttributeError', 'NameError', 'KeyError', 'AssertionError', 'UnboundLocalError', 'IndexError', 'RecursionError', 'LookupError')
CRASH_TYPES = list(NAME_ERRORS) + ['RecursionError']


def absent_forms():
    with open(os.path.join(common.VERIF, 'oracle', 'absent_forms.json')) as f:
        return set(json.load(f)['absent'])


def candidates(summ, absent):
    out = []
    for name, paths in summ.items():
        for k, p in enumerate(paths):
            if p.kind == 'unknown_input':
                out.append((name, k, 'unknown_input', p.detail))
            elif p.kind == 'unknown_line':
                out.append((name, k, 'unknown_line', p.detail))
            elif p.kind == 'unknown_form':
                if p.detail not in absent:
                    out.append((name, k, 'unknown_form', p.detail))
            elif p.kind == 'exception':
                et = p.detail.split(':', 1)[0]
                if et in NAME_ERRORS:
                    out.append((name, k, 'exception', p.detail))
    return out


def year_task(arg):
    year, K, S = arg
    os.environ['HV_PROCS'] = '1'      # inside a pool worker: no nested pools
    t0 = time.time()
    absent = absent_forms()
    sopts = {'S': S, 'ft': 'uf', 'cents': True}
    summs = retmodel.load_summaries(year, K, sopts, procs=1)
    cat, summ, meta = summs
    res = {'year': year, 'lines': len(summ), 'paths': sum(len(v) for v in summ.values()), 'cands': [], 'obligations': [], 'viol': [],
           'kinds': {}, 'incomplete': [n for n, m in meta.items() if not m['complete']], 'observations': [], 'absent_ok': [], 'unreachable': []}
    for name, paths in summ.items():
        for p in paths:
            res['kinds'][p.kind] = res['kinds'].get(p.kind, 0) + 1
            if p.kind == 'exception' and p.detail.split(':', 1)[0] not in NAME_ERRORS:
                res['observations'].append('%d %s %s' % (year, name, p.detail[:80]))
            if p.kind in ('cut', 'unsupported'):
                res['incomplete'].append('%s (%s: %s)' % (name, p.kind, p.detail))
            if p.kind == 'unknown_form' and p.detail in absent:
                res['absent_ok'].append((name, p.detail))
    cands = candidates(summ, absent)
    res['cands'] = [(n, kind, det) for n, k, kind, det in cands]
    lifters = {}

    def lifter_for(name):
        for req in (('1040',), ('1040', 'nc_d-400'), (name.split('.', 1)[0],)):
            if req not in lifters:
                lifters[req] = retmodel.Lifter(year, K, S, list(req), timeout_ms=30000)
            if name in lifters[req].rm.summ:
                return req, lifters[req]
        return None, None
    seen = set()
    tried = {}
    for name, k, kind, det in cands:
        gkey = (name, kind, det.split(':', 1)[0] if kind == 'exception' else det)
        req, lf = lifter_for(name)
        oname = 'ty%d/%s/path%d/%s' % (year, name, k, kind)
        if lf is None:
            # no requested form set makes any line read it (optional line nobody references): unreachable
            res['obligations'].append((oname, 'unsat', 0.0, 'line is in no demand closure (optional line that no line reads): unreachable through the public API'))
            res['unreachable'].append(name)
            continue
        if gkey in seen:
            continue
        tried[gkey] = tried.get(gkey, 0) + 1
        if tried[gkey] > 3:
            # a line with thousands of crashing paths (same cause): three lifting attempts per cause
            if tried[gkey] == 4:
                res['obligations'].append((oname + ' (+ further paths with the same cause)', 'unknown', 0.0, 'lifting attempts exhausted for %s' % (gkey,)))
            continue
        t1 = time.time()

        sel = lf.rm.sel.get((name, k))
        r, inputs, m = lf.query([sel if sel is not None else tm.FALSE, lf.rm.only_abnormal(name)])
        if r == 'unsat' and sel is not None:
            # another crash site may share the condition: allow it, the replay
            # tells which candidate line actually crashes first
            r, inputs, m = lf.query([sel])
        dt = time.time() - t1
        res['obligations'].append((oname, r, dt, 'exists inputs: real solve(%s) reaches %s path %d (%s: %s)' % (list(req), name, k, kind, det[:80])))
        if r == 'sat':
            rep = {'kind': 'solve', 'year': year, 'forms': list(req), 'inputs': inputs,
                   'expect': {'kind': 'exception', 'type': CRASH_TYPES, 'line': None, 'lines': sorted(set(c[0] for c in cands))}}
            res['viol'].append({'key': 'ty%d:%s:%s' % (year, name, kind), 'line': name, 'what': '%s -> %s' % (kind, det[:160]), 'replay': rep, 'gkey': gkey})
            seen.add(gkey)
    res['wall'] = time.time() - t0
    return res


def run(tier):
    K, S = (1, 2) if tier == 'quick' else (2, 3)
    c = common.Check('C10', tier, 'path-exhaustive symbolic execution of every shipped line definition (real Field.value on symbolic inputs/lines) + SMT lifting of each crashing path through the whole-return model to concrete inputs, replayed on the real Solver',
                     ['Field.value / TypedField.value / FloatField.value of every line in habutax/forms/ty2021..ty2023', 'habutax.form.Form.threshold', 'habutax.form.FormAccessor'])
    c.bounds = {'years': [2021, 2022, 2023], 'copies_per_input_form': K, 'copies_total': S, 'number_dependents': '0..5', 'filing_status': 'symbolic (all members)', 'amounts': '|x| <= 1e8', 'paths': 'all feasible paths per line'}
    c.outside = ['names built from copy indices >= %d (e.g. w-2:%d)' % (K, K), 'paths infeasible for every input (solver-decided) are skipped', 'content of free-text strings']
    c.stubs = ['figure_tax -> uninterpreted FT(status,x) in [0,0.37x] (C07 verifies the real one)', 'InputStore -> every catalogued input present with a symbolic value of its type']
    c.assumptions = ['oracle/absent_forms.json lists the deliberately absent forms', 'a crash is only reported after the real Solver reproduced it on solver-generated inputs']
    retmodel.preload([(y, K, {'S': S, 'ft': 'uf', 'cents': True}) for y in (2021, 2022, 2023)])   # one pool for all years; cached by source hash
    os.environ['HV_PRELOADED'] = '1' 
    results = common.pmap(year_task, [(y, K, S) for y in (2021, 2022, 2023)])
    for r in results:
        c.paths += r['paths']
        for oname, res, dt, desc in r['obligations']:
            # here 'unsat' = the crashing path is unreachable from any return (discharged);
            # 'sat' = reachable -> must replay
            c.obligation(oname, res, dt, sample={'obligation': oname, 'query': desc, 'result': res})
        for inc in r['incomplete']:
            c.inconclusive.append('ty%d %s' % (r['year'], inc))
        for v in r['viol']:
            out = common.run_real(['solve'], v['replay'])
            c.replays_run += 1
            if out.get('reproduced'):
                crash_line = ((out.get('result') or {}).get('exception') or {}).get('crash_line') or v['line']
                kinds = {cn: ck for cn, ck, _ in r['cands']}
                key = v['key'] if crash_line == v['line'] else 'ty%d:%s:%s' % (r['year'], crash_line, kinds.get(crash_line, 'crash'))
                c.violation(key, '%s [real solve: %s]' % (v['what'], out.get('detail')), v['replay'])
            else:
                c.spurious += 1
                c.notes.append('candidate not reproduced: %s (%s)' % (v['key'], out.get('detail')))
        c.extra.setdefault('per_year', {})[str(r['year'])] = {'lines': r['lines'], 'paths': r['paths'], 'outcome_kinds': r['kinds'], 'candidates': len(r['cands']),
                                                               'deliberately_absent_refs': sorted(set('%s->%s' % t for t in r['absent_ok'])), 'wall_s': round(r['wall'], 1), 'crash_paths_in_undemandable_lines': sorted(set(r['unreachable']))}
        c.notes.extend(r['observations'][:20])
    # vacuity: the explorer must have seen not_implemented and value paths
    for r in results:
        if r['kinds'].get('value', 0) < 100 or r['kinds'].get('not_implemented', 0) < 10:
            c.inconclusive.append('vacuity: year %d produced too few paths' % r['year'])
    # also count every explored path as a discharged "names resolve on this path" obligation
    total_ok = sum(v for r in results for k, v in r['kinds'].items() if k in ('value', 'not_implemented', 'type_error'))
    c.extra['paths_with_all_names_resolved'] = total_ok
    return c.finish()
