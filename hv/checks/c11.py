"""C11: lines only ever see validated, correctly typed, finite input values.

For each input class the real InputStore.__getitem__ / Input.valid / Input.value
/ prompt_input run on a bounded symbolic string (hv.bstr: code points + length,
ASCII); float()/int()/re are symbolic DFAs.  Every feasible path is a region of
input texts; on each the assertions (value => valid, declared type, finite;
invalid => InvalidInput; valid <=> value raises no ValueError; presence <=>
no MissingInput) are evaluated, finiteness by an SMT query.  Witness texts are
replayed on the real code.
"""
import importlib
import os
import time

import z3

from .. import common, instrument, symx, rt, bstr
from .. import terms as tm


class FakeForm(object):
    def name(self):
        return 'f'


class Cfg(object):
    def __init__(self, s):
        self.s = s

    def has_option(self, section, key):
        return symx.wrap(tm.var('present', 'B'), bool)

    def get(self, section, key):
        return self.s


def specs():
    I = importlib.import_module('habutax.inputs')
    E = importlib.import_module('habutax.enum')
    small = E.make('T', {'ab': 'first', 'c': 'second', 'Ab': 'third'})
    return [
        ('StringInput', lambda: I.StringInput('x'), 4, 'str'),
        ('BooleanInput', lambda: I.BooleanInput('x'), 6, 'bool'),
        ('IntegerInput', lambda: I.IntegerInput('x'), 5, 'int'),
        ('FloatInput', lambda: I.FloatInput('x'), 6, 'float'),
        ('FloatInput8', lambda: I.FloatInput('x'), 8, 'float'),
        ('EnumInput', lambda: I.EnumInput('x', small), 4, 'enum'),
        ('EnumInputEmpty', lambda: I.EnumInput('x', small, allow_empty=True), 4, 'enum?'),
        ('RegexRouting', lambda: I.RegexInput('x', '^(0[1-9]|1[0-2]|2[1-9]|3[0-2])[0-9]{7}$'), 10, 'str'),
        ('RegexAccount', lambda: I.RegexInput('x', '^[0-9A-Za-z\\-]{1,17}$'), 6, 'str'),
        ('SSNInput', lambda: I.SSNInput('x'), 11, 'str'),
    ]


def type_ok(kind, v):
    t = rt.type_(v)
    if kind == 'str':
        return t is str
    if kind == 'bool':
        return t is bool
    if kind == 'int':
        return t is int
    if kind == 'float':
        return t is float
    import enum as _e
    if kind == 'enum':
        return isinstance(v, _e.Enum)
    if kind == 'enum?':
        return v is None or isinstance(v, _e.Enum)
    return False


def task(arg):
    name, tier = arg
    instrument.install()
    I = importlib.import_module('habutax.inputs')
    habutax = importlib.import_module('habutax')
    spec = [s for s in specs() if s[0] == name][0]
    _, mk, L, kind = spec
    if tier == 'thorough' and name not in ('RegexRouting', 'SSNInput'):
        L += 3
    res = {'name': name, 'L': L, 'paths': 0, 'obl': [], 'viol': [], 'kinds': {}, 'samples': [], 'solver_s': 0.0}
    ex = symx.Explorer(timeout_ms=20000, max_paths=50000)
    holder = {}

    def body():
        inp = mk()
        inp.__form_init__(FakeForm())
        if isinstance(inp, I.RegexInput):
            inp._regex = bstr.RegexStub(inp._regex_str, inp._regex)
        s = bstr.BStr.fresh('s', L)
        holder['s'] = s
        store = I.InputStore.__new__(I.InputStore)
        store.config = Cfg(s)
        store.input_specs = {'f.x': inp}
        present = None
        out = {'outcome': None, 'value': None}
        try:
            v = store['f.x']
            out['outcome'] = 'value'
            out['value'] = v
        except I.MissingInput:
            out['outcome'] = 'missing'
        except I.InvalidInput:
            out['outcome'] = 'invalid'
        except (symx.PathCut, symx.Unsupported, symx.Nondeterminism):
            raise
        except Exception as e:
            out['outcome'] = 'exc:' + type(e).__name__
        # independent evaluations on the same text (same path region)
        try:
            out['valid'] = bool(inp.valid(s))
        except (symx.PathCut, symx.Unsupported, symx.Nondeterminism):
            raise
        except Exception as e:
            out['valid'] = 'exc:' + type(e).__name__
        try:
            inp.value(s)
            out['value_raises'] = None
        except ValueError:
            out['value_raises'] = 'ValueError'
        except (symx.PathCut, symx.Unsupported, symx.Nondeterminism):
            raise
        except Exception as e:
            out['value_raises'] = type(e).__name__
        out['present'] = ex.decide(tm.var('present', 'B'))
        return out

    chk = z3.Solver()
    chk.set('timeout', 20000)

    def witness(p, extra=None):
        chk.push()
        for t in ex.base:
            chk.add(tm.to_z3(t))
        for r in p.decisions:
            chk.add(tm.to_z3(r.term if r.value else tm.not_(r.term)))
        if extra is not None:
            chk.add(tm.to_z3(extra))
        r = str(chk.check())
        txt = holder['s'].model_text(chk.model()) if r == 'sat' else None
        chk.pop()
        return r, txt

    def V(key, what, p, extra=None, expect=None):
        r, txt = witness(p, extra)
        res['viol'].append({'key': '%s:%s' % (name, key), 'what': what, 'text': txt, 'expect': expect or key})

    for p in ex.explore(body):
        res['paths'] += 1
        if p.cut or p.unsupported:
            res['kinds']['cut'] = res['kinds'].get('cut', 0) + 1
            res['obl'].append(('%s/path%d' % (name, res['paths']), 'unknown', 0.0))
            res['viol'].append({'key': None, 'what': 'unsupported: %s' % (p.cut or p.unsupported)})
            continue
        if p.exc is not None:
            raise p.exc
        o = p.outcome
        res['kinds'][o['outcome']] = res['kinds'].get(o['outcome'], 0) + 1
        ok = True
        if o['outcome'] == 'value':
            if o['valid'] is not True:
                V('value-but-invalid', 'a value was produced for a text the validator rejects', p)
                ok = False
            if not type_ok(kind, o['value']):
                V('wrong-type', 'value of type %s for a %s input' % (rt.type_(o['value']), kind), p)
                ok = False
            if kind == 'float' and isinstance(o['value'], bstr.SymFloatP):
                t0 = time.time()
                r, txt = witness(p, tm.not_(o['value'].finite))
                res['solver_s'] += time.time() - t0
                res['obl'].append(('%s/path%d/finite' % (name, res['paths']), r, time.time() - t0))
                if r == 'sat':
                    res['viol'].append({'key': '%s:non-finite' % name, 'what': 'text %r is accepted and turned into a non-finite float' % txt, 'text': txt, 'expect': 'non-finite'})
                    ok = False
            if not o['present']:
                V('default-for-absent', 'an absent input produced a value', p)
                ok = False
            if name == 'SSNInput':
                # the declared format of an SSN value (independent of valid()): exactly nine digits
                v_ = o['value']
                if isinstance(v_, bstr.BStr):
                    fmt = tm.and_(tm.eq(v_.n, tm.I(9)), *[bstr.is_digit(v_.chars[k]) for k in range(min(9, v_.L))]) if v_.L >= 9 else tm.FALSE
                    t0 = time.time()
                    r, txt = witness(p, tm.not_(fmt))
                    res['solver_s'] += time.time() - t0
                    res['obl'].append(('%s/path%d/format' % (name, res['paths']), r, time.time() - t0))
                    if r == 'sat':
                        res['viol'].append({'key': '%s:value-not-in-format' % name, 'what': 'text %r is accepted but the value handed to the lines is not nine digits' % txt, 'text': txt, 'expect': 'value-not-in-format'})
                        ok = False
                elif not (isinstance(v_, str) and len(v_) == 9 and v_.isdigit()):
                    V('value-not-in-format', 'accepted SSN value %r is not nine digits' % (v_,), p, expect='value-not-in-format')
                    ok = False
        elif o['outcome'] == 'invalid':
            if o['valid'] is not False:
                V('invalid-but-valid', 'InvalidInput raised for a text the validator accepts', p)
                ok = False
        elif o['outcome'] == 'missing':
            if o['present']:
                V('missing-but-present', 'MissingInput raised although the input was supplied', p)
                ok = False
        else:
            V('leak-' + o['outcome'], 'store lookup leaked %s instead of InvalidInput/value' % o['outcome'], p, expect='leak')
            ok = False
        # valid() and value() must agree for the types whose valid() is derived from value()
        if (o['valid'] is True) != (o['value_raises'] is None) and kind in ('bool', 'int', 'float'):
            V('valid-value-drift', 'valid() says %s but value() %s' % (o['valid'], 'raises ' + o['value_raises'] if o['value_raises'] else 'succeeds'), p)
            ok = False
        res['obl'].append(('%s/path%d' % (name, res['paths']), 'unsat' if ok else 'sat', 0.0))
        if len(res['samples']) < 2:
            r, txt = witness(p)
            res['samples'].append({'input_class': name, 'path': res['paths'], 'outcome': o['outcome'], 'valid': o['valid'], 'example_text_in_region': txt})
    # ---- prompt loop: only valid text is ever returned
    ex2 = symx.Explorer(timeout_ms=20000, max_paths=20000)
    calls = {'n': 0}

    def prompt_body():
        inp = mk()
        inp.__form_init__(FakeForm())
        if isinstance(inp, I.RegexInput):
            inp._regex = bstr.RegexStub(inp._regex_str, inp._regex)
        calls['n'] = 0

        def fake_input(prompt=''):
            calls['n'] += 1
            if calls['n'] > 2:
                raise KeyboardInterrupt()
            return bstr.BStr.fresh('t%d' % calls['n'], min(L, 5))
        old_in, old_pr = rt._input, rt._print
        rt._input = fake_input
        rt._print = lambda *a, **k: None
        try:
            val, supplied = habutax.prompt_input(inp, [])
        finally:
            rt._input, rt._print = old_in, old_pr
        if supplied:
            return ('supplied', bool(inp.valid(val)))
        return ('refused', None)
    try:
        for p in ex2.explore(prompt_body):
            res['paths'] += 1
            if p.cut or p.unsupported or p.exc is not None:
                res['obl'].append(('%s/prompt/path' % name, 'unknown', 0.0))
                continue
            kind_, okv = p.outcome
            good = kind_ == 'refused' or okv is True
            res['obl'].append(('%s/prompt/path%d' % (name, res['paths']), 'unsat' if good else 'sat', 0.0))
            if not good:
                res['viol'].append({'key': '%s:prompt-returns-invalid' % name, 'what': 'prompt_input returned a text the validator rejects', 'text': None, 'expect': 'prompt'})
    except RuntimeError as e:
        res['obl'].append(('%s/prompt' % name, 'unknown', 0.0))
    res['stats'] = dict(ex.stats)
    return res


def run(tier):
    c = common.Check('C11', tier, 'bounded symbolic execution of the real InputStore.__getitem__ / Input.valid / Input.value / prompt_input on a symbolic string (code-point array + length, z3 decides path feasibility); float()/int()/re as symbolic DFAs; finiteness by SMT query per path',
                     ['habutax.inputs.InputStore.__getitem__', 'habutax.inputs.{String,Boolean,Integer,Float,Enum,Regex,SSN}Input.valid/value', 'habutax.prompt_input'])
    instrument.install()
    names = [s[0] for s in specs() if tier == 'thorough' or s[0] != 'FloatInput8']
    c.bounds = {'alphabet': 'ASCII 0..127', 'string_length': {s[0]: (s[2] + (3 if tier == 'thorough' and s[0] not in ('RegexRouting', 'SSNInput') else 0)) for s in specs()}, 'prompt_attempts': 2}
    c.outside = ['non-ASCII text (unicode digits / whitespace)', 'strings longer than the per-class bound', 'numeric value of floats with an exponent (kind finite/inf/nan is modelled, value is uninterpreted)']
    c.stubs = ['float(str), int(str): grammar DFAs (validated against CPython on a corpus in the self-test)', 're.compile(p).match for the two shipped patterns', 'configparser behind InputStore: keyed stub', 'input(): returns fresh symbolic strings, then KeyboardInterrupt']
    instrument.install()
    results = common.pmap(task, [(n, tier) for n in names])
    for r in results:
        c.paths += r['paths']
        c.solver_s += r['solver_s'] + r['stats']['solver_s']
        for nm, res, dt in r['obl']:
            c.obligation(nm, res, dt)
        c.samples.extend(r['samples'][:1])
        c.extra.setdefault('per_class', {})[r['name']] = {'L': r['L'], 'paths': r['paths'], 'outcomes': r['kinds']}
        for v in r['viol']:
            if v.get('key') is None:
                c.inconclusive.append('%s: %s' % (r['name'], v['what']))
                continue
            if v.get('text') is None:
                c.inconclusive.append('%s: no witness text for %s' % (r['name'], v['key']))
                continue
            rep = {'kind': 'input_value', 'cls': r['name'], 'text': v['text'], 'expect': v['expect']}
            out = common.run_real(['input_value'], rep)
            c.replays_run += 1
            if out.get('reproduced'):
                c.violation('C11:' + v['key'], '%s (text %r) [real code: %s]' % (v['what'], v['text'], out.get('detail')), rep)
            else:
                c.spurious += 1
                c.inconclusive.append('witness did not reproduce: %s text=%r (%s)' % (v['key'], v['text'], out.get('detail')))
        if not r['kinds'].get('value') or not (r['kinds'].get('invalid') or r['name'] == 'StringInput'):
            c.inconclusive.append('vacuity: %s never produced both a value and a rejection' % r['name'])
    return c.finish()
