"""C13: prompting is demand-exact; written-back answers make the run repeatable.

Part 1 (deciding): the shared algorithm harness (hv.algo_check) on generated
form programs with a keyed store stub: prompts quote only lines that raised
MissingInput for that input, each input is asked at most once, a re-run on the
written-back store asks nothing and gives the identical result.
Part 2 (supplementary, INI text layer, not solver-decided): the real
habutax.solve(args) with write-back over real temp files and the real
configparser, on a solver-generated solved return from which two text inputs
are removed; the typed answers range over every printable ASCII character in
three positions (SMT-enumerated); the re-run must ask nothing and produce the
identical solution file.
"""
import os

from .. import algo_check, common, retmodel, symx
from .. import terms as tm


def ini_sessions():
    ex = symx.Explorer(max_paths=2000)
    out = []

    def body():
        c = symx.cur().concretize(symx.fresh_int('ch', 32, 126).term)
        p = symx.cur().concretize(symx.fresh_int('pat', 0, 2).term)
        return (c, p)
    for p in ex.explore(body):
        if p.exc is None and not p.cut:
            out.append(p.outcome)
    return out, ex.stats


def run_one(arg):
    year, inputs, ch, pat = arg
    if pat == 3:
        # an input that many lines wait for at once (the shipped prompt lists them): answered at the prompt
        c, text = 'widely-needed-input', inputs['1040.filing_status']
        d = {'kind': 'cli_session', 'year': year, 'forms': ['1040'], 'inputs': inputs, 'remove': ['1040.filing_status'],
             'answers': {'1040.filing_status': text}, 'interrupt': {'k': None}}
    else:
        c = chr(ch)
        text = ['a%sb' % c, 'a %sb' % c, '%sab' % c][pat]
        d = {'kind': 'cli_session', 'year': year, 'forms': ['1040'], 'inputs': inputs, 'remove': ['1040.occupation', '1040.city'],
             'answers': {'1040.occupation': text, '1040.city': 'Town'}, 'interrupt': {'k': None}}
    try:
        out = common.run_real(['cli_session'], d)
    except Exception as e:
        return {'text': text, 'char': c, 'findings': ['harness:%s' % str(e)[-200:]], 'exc1': None, 'replay': d}
    return {'text': text, 'char': c, 'findings': out['findings'], 'exc1': out['exc1'], 'replay': d}


def extra(c, tier):
    sess, st = ini_sessions()
    c.paths += st['paths']
    year = 2023
    retmodel.preload([(year, 1, {'S': 2, 'ft': 'ref', 'cents': True})])
    os.environ['HV_PRELOADED'] = '1'
    lf = retmodel.Lifter(year, 1, 2, ['1040'], ft='ref')
    r, inputs, m = lf.query([lf.rm.solved, tm.eq(tm.var('i:1040.number_w-2', 'I'), tm.I(1))])
    if r != 'sat':
        c.inconclusive.append('INI part: no solved base return')
        return
    results = common.pmap(run_one, [(year, inputs, ch, pat) for ch, pat in sess] + [(year, inputs, 0, 3)])
    bad = {}
    for rr in results:
        nm = 'ini-session answer=%r' % rr['text']
        ok = not rr['findings'] and rr['exc1'] is None
        c.obligation(nm, 'unsat' if ok else 'sat', 0.0, sample={'supplementary_ini_session': rr['text'], 'findings': rr['findings'], 'exception': rr['exc1']} if (not ok or len(c.samples) < 8) else None)
        if not ok:
            kind = (rr['findings'][0].split(':')[0] if rr['findings'] else 'exception:%s' % rr['exc1'])
            bad.setdefault(kind, []).append(rr)
    for kind, lst in bad.items():
        # keyed by the character that makes the answer fail (a finding about '%' must not hide
        # answers that fail for another reason); many different characters = any answer
        by_char = {}
        for rr in lst:
            by_char.setdefault(rr['char'], []).append(rr)
        if len(by_char) > 8:
            groups = {'any-answer': lst}
        else:
            groups = by_char
        for ch, sub in sorted(groups.items()):
            rr = sub[0]
            rep = dict(rr['replay'])
            rep['expect'] = kind if not kind.startswith('exception') else None
            texts = sorted(set(x['text'] for x in sub))
            c.violation('C13:ini:%s:%s' % (kind, ch), 'an answer typed at the prompt does not survive write-back / re-read: %s for answers %s%s' % (kind, texts[:6], ' ...' if len(texts) > 6 else ''), rep)
    c.extra['ini_sessions'] = len(results)


def run(tier):
    return algo_check.run_property('C13', tier, extra=extra)
