"""C07: income tax follows the statutory rate schedule.

The real figure_tax(x, status) of each year runs on a symbolic real x in
[0, 1e12] and a symbolic status pinned per task.  The path explorer yields one
path per table row / worksheet row; per path the solver proves value == Ref(x)
for every x on the path, where Ref is built from oracle/rate_schedules.json
only.  Fall-through (assert False / TypeError from a missing status column)
is a feasible exception path and therefore a violation.
"""
import json
import os
import time
from fractions import Fraction

import z3

from .. import common, instrument
from .. import terms as tm

HI = 10 ** 12


def load_oracle():
    with open(os.path.join(common.VERIF, 'oracle', 'rate_schedules.json')) as f:
        return json.load(f)


def bracket_tax_term(y, tops, rates):
    """cumulative bracket formula as a term of real y"""
    total = tm.R(0)
    lo = Fraction(0)
    bounds = [Fraction(t) for t in tops] + [None]
    for r, hi in zip(rates, bounds):
        r = Fraction(r, 100)
        seg_hi = y if hi is None else tm.min_(y, tm.R(hi))
        seg = tm.max_(tm.R(0), tm.sub(seg_hi, tm.R(lo)))
        total = tm.add(total, tm.mul(tm.R(r), seg))
        if hi is not None:
            lo = hi
    return total


def bracket_tax_py(y, tops, rates):
    y = Fraction(y)
    total = Fraction(0)
    lo = Fraction(0)
    for r, hi in zip(rates, list(tops) + [None]):
        seg_hi = y if hi is None else min(y, Fraction(hi))
        total += Fraction(r, 100) * max(Fraction(0), seg_hi - lo)
        if hi is not None:
            lo = Fraction(hi)
    return total


def ref_table_term(x, tops, rates):
    R, I = tm.R, tm.I
    k25 = tm.floor(tm.div(x, R(25)))
    k50 = tm.floor(tm.div(x, R(50)))
    lo = tm.ite(tm.lt(x, R(5)), R(0), tm.ite(tm.lt(x, R(15)), R(5), tm.ite(tm.lt(x, R(25)), R(15),
         tm.ite(tm.lt(x, R(3000)), tm.mul(R(25), tm.to_real(k25)), tm.mul(R(50), tm.to_real(k50))))))
    hi = tm.ite(tm.lt(x, R(5)), R(5), tm.ite(tm.lt(x, R(15)), R(15), tm.ite(tm.lt(x, R(25)), R(25),
         tm.ite(tm.lt(x, R(3000)), tm.add(tm.mul(R(25), tm.to_real(k25)), R(25)), tm.add(tm.mul(R(50), tm.to_real(k50)), R(50))))))
    mid = tm.div(tm.add(lo, hi), R(2))
    t = bracket_tax_term(mid, tops, rates)
    return tm.to_real(tm.floor(tm.add(t, R(Fraction(1, 2)))))


def ref_py(x, tops, rates):
    """Independent Python evaluation of the reference (used on replay)."""
    x = Fraction(x)
    if x < 100000:
        if x < 5:
            lo, hi = 0, 5
        elif x < 15:
            lo, hi = 5, 15
        elif x < 25:
            lo, hi = 15, 25
        elif x < 3000:
            lo = 25 * (x.numerator // (x.denominator * 25))
            hi = lo + 25
        else:
            lo = 50 * (x.numerator // (x.denominator * 50))
            hi = lo + 50
        t = bracket_tax_py(Fraction(lo + hi, 2), tops, rates) + Fraction(1, 2)
        return Fraction(t.numerator // t.denominator)
    return bracket_tax_py(x, tops, rates)


def task(arg):
    year, status_name = arg
    from .. import symx
    instrument.install()
    import importlib
    mod = importlib.import_module('habutax.forms.ty%d.f1040_figure_tax' % year)
    f1040 = importlib.import_module('habutax.forms.ty%d.f1040' % year)
    form = f1040.Form1040()
    enum_cls = [i for i in form.inputs() if i.base_name() == 'filing_status'][0].enum
    members = list(enum_cls)
    orc = load_oracle()
    col = orc['status_to_column'][status_name]
    tops = orc['schedules'][str(year)][col]
    rates = orc['rates_pct']
    k = [m.name for m in members].index(status_name)

    ex = symx.Explorer(timeout_ms=30000, max_paths=20000)
    xv = tm.var('x', 'R')
    stv = tm.var('st', 'I')
    ex.assume_base(tm.and_(tm.le(tm.R(0), xv), tm.le(xv, tm.R(HI))))
    ex.assume_base(tm.eq(stv, tm.I(k)))
    x = symx.SymFloat(xv)
    st = symx.SymEnum(enum_cls, stv)
    res = {'task': [year, status_name], 'obligations': [], 'violations': [], 'paths': 0, 'samples': [], 'pieces': 0, 'solver_s': 0.0, 'mono': []}
    t0 = time.time()
    chk = z3.Solver()
    chk.set('timeout', 30000)
    for b in ex.base:
        chk.add(tm.to_z3(b))
    ref_tab = ref_table_term(xv, tops, rates)
    ref_ws = bracket_tax_term(xv, tops, rates)
    below = tm.lt(xv, tm.R(100000))
    ref = tm.ite(below, ref_tab, ref_ws)
    pieces = []

    def witness(extra):
        """prefer whole-dollar, then cent, then any real witness"""
        kk = tm.var('wk', 'I')
        for grid in (tm.eq(xv, tm.to_real(kk)), tm.eq(xv, tm.div(tm.to_real(kk), tm.R(100))), tm.TRUE):
            chk.push()
            chk.add(tm.to_z3(extra))
            chk.add(tm.to_z3(grid))
            r = str(chk.check())
            m = chk.model() if r == 'sat' else None
            chk.pop()
            if r == 'sat':
                return tm.model_value(m, xv)
        return None

    for p in ex.explore(lambda: mod.figure_tax(x, st)):
        res['paths'] += 1
        pc = p.pc()
        name = 'ty%d/%s/path%d' % (year, status_name, res['paths'])
        if p.cut or p.unsupported:
            res['obligations'].append((name, 'unknown', 0.0))
            continue
        if p.exc is not None:
            xw = witness(pc)
            res['violations'].append({'key': 'ty%d:%s:undefined' % (year, status_name),
                                      'what': 'figure_tax raises %s for a feasible income (witness x=%s)' % (type(p.exc).__name__, xw),
                                      'x': str(xw), 'year': year, 'status': status_name, 'kind': 'undefined'})
            res['obligations'].append((name, 'sat', 0.0))
            continue
        out = p.outcome
        lifted = symx._lift(out)
        if lifted is None or lifted[1] is not float:
            xw = witness(pc)
            res['violations'].append({'key': 'ty%d:%s:type' % (year, status_name), 'what': 'figure_tax returned %r (not a float)' % (out,),
                                      'x': str(xw), 'year': year, 'status': status_name, 'kind': 'value'})
            res['obligations'].append((name, 'sat', 0.0))
            continue
        val = lifted[0]
        pieces.append((pc, val))
        t1 = time.time()
        chk.push()
        chk.add(tm.to_z3(pc))
        chk.add(tm.to_z3(tm.ne(val, ref)))
        r = str(chk.check())
        dt = time.time() - t1
        m = chk.model() if r == 'sat' else None
        chk.pop()
        sample = None
        if len(res['samples']) < 2 or (not val.is_const() and len(res['samples']) < 4):
            sample = {'obligation': name, 'path_condition': tm.show(pc, 4)[:300], 'value': tm.show(val)[:120], 'query': 'exists x: pc(x) and value(x) != Ref(x)', 'result': r}
            res['samples'].append(sample)
        res['obligations'].append((name, r, dt))
        if r == 'sat':
            xw = witness(tm.and_(pc, tm.ne(val, ref)))
            if xw is None:
                xw = tm.model_value(m, xv)
            res['violations'].append({'key': 'ty%d:%s:value' % (year, status_name),
                                      'what': 'figure_tax(%s, %s) differs from the %d rate schedule (code %s, schedule %s)' % (
                                          float(xw), status_name, year, float(tm.evaluate(val, {'x': xw})), float(ref_py(xw, tops, rates))),
                                      'x': str(xw), 'year': year, 'status': status_name, 'kind': 'value'})
    res['pieces'] = len(pieces)
    # ---- corollary: non-decreasing, via adjacency of the pieces ------------
    # sample point per piece to order them
    x1, x2 = tm.var('x1', 'R'), tm.var('x2', 'R')
    order = []
    for i, (pc, val) in enumerate(pieces):
        chk.push()
        chk.add(tm.to_z3(pc))
        r = str(chk.check())
        xv_ = tm.model_value(chk.model(), xv) if r == 'sat' else None
        chk.pop()
        order.append((xv_, i))
    order.sort(key=lambda t: (t[0] is None, t[0]))
    mono = z3.Solver()
    mono.set('timeout', 30000)
    dom = tm.and_(tm.le(tm.R(0), x1), tm.le(x1, x2), tm.le(x2, tm.R(HI)))
    mono.add(tm.to_z3(dom))
    bad_mono = 0
    for a, b in zip(order, order[1:] + [None]):
        i = a[1]
        pc_i, v_i = pieces[i]
        qs = [('within', tm.and_(tm.subst(pc_i, {'x': x1}), tm.subst(pc_i, {'x': x2}), tm.lt(tm.subst(v_i, {'x': x2}), tm.subst(v_i, {'x': x1}))))]
        if b is not None:
            pc_j, v_j = pieces[b[1]]
            qs.append(('step', tm.and_(tm.subst(pc_i, {'x': x1}), tm.subst(pc_j, {'x': x2}), tm.lt(tm.subst(v_j, {'x': x2}), tm.subst(v_i, {'x': x1})))))
            # pieces are ordered: nothing of piece j lies below something of piece i
            qs.append(('order', tm.and_(tm.subst(pc_j, {'x': x1}), tm.subst(pc_i, {'x': x2}), tm.lt(x1, x2))))
        for nm, q in qs:
            t1 = time.time()
            mono.push()
            mono.add(tm.to_z3(q))
            r = str(mono.check())
            m = mono.model() if r == 'sat' else None
            mono.pop()
            res['mono'].append((nm, r, time.time() - t1))
            if r == 'sat' and nm != 'order':
                a1, a2 = tm.model_value(m, x1), tm.model_value(m, x2)
                res['violations'].append({'key': 'ty%d:%s:monotone' % (year, status_name),
                                          'what': 'tax decreases: f(%s) > f(%s)' % (float(a1), float(a2)),
                                          'x': str(a1), 'x2': str(a2), 'year': year, 'status': status_name, 'kind': 'monotone'})
            elif r == 'sat':
                res['mono'][-1] = (nm, 'unknown', 0.0)  # ordering assumption failed: corollary inconclusive
    res['stats'] = dict(ex.stats)
    res['wall'] = time.time() - t0
    return res


def lfp_lemma(check, rows, tier):
    """Float evaluation of x*rate - sub stays within 1e-3 of the exact value
    for 1e5 <= x <= 1e12 under the IEEE standard model (NRA)."""
    u = Fraction(1, 2 ** 53)
    for (rate, sub_) in rows:
        x, d0, d1, d2 = z3.Reals('x d0 d1 d2')
        s = z3.Solver()
        s.set('timeout', 60000)
        r = z3.RealVal(str(Fraction(repr(rate))))
        sb = z3.RealVal(str(Fraction(repr(sub_))))
        uu = z3.RealVal(str(u))
        s.add(x >= 100000, x <= HI)
        for d in (d0, d1, d2):
            s.add(d >= -uu, d <= uu)
        fl = ((x * (r * (1 + d0))) * (1 + d1) - sb) * (1 + d2)
        exact = x * r - sb
        tol = z3.RealVal('1/1000')
        s.add(z3.Or(fl - exact > tol, exact - fl > tol))
        t1 = time.time()
        res = str(s.check())
        check.obligation('L-fp x*%s-%s' % (rate, sub_), res, time.time() - t1,
                         sample={'obligation': 'L-fp', 'kernel': 'x*%s-%s' % (rate, sub_), 'result': res})


def run(tier):
    orc = load_oracle()
    c = common.Check('C07', tier, 'bounded symbolic execution of the real figure_tax on symbolic real income + SMT equivalence with the statutory rate schedule per path',
                     ['habutax.forms.ty%d.f1040_figure_tax.figure_tax/figure_tax_table/figure_tax_worksheet' % y for y in (2021, 2022, 2023)])
    c.bounds = {'income': 'every real x in [0, 1e12]', 'status': 'all 5 members of the year\'s enum', 'years': [2021, 2022, 2023], 'table_rows_unrolled': 'all (loop bound = table length, explored to exhaustion)'}
    c.outside = ['negative income', 'income above 1e12', 'bit-level float rounding of x*rate-sub (covered by lemma L-fp to 1e-3 under the IEEE standard model)']
    c.assumptions = ['oracle/rate_schedules.json transcribes Rev. Proc. 2020-45 / 2021-45 / 2022-38 correctly', 'IRS table entry = tax at row midpoint rounded half-up',
                     'float literals read as the decimals written', 'monotonicity, marginal-rate bound and QSS==MFJ are corollaries of equality with the schedule; monotonicity is additionally checked on piece adjacency']
    instrument.install()
    tasks = []
    import importlib
    for year in (2021, 2022, 2023):
        f1040 = importlib.import_module('habutax.forms.ty%d.f1040' % year)
        enum_cls = [i for i in f1040.Form1040().inputs() if i.base_name() == 'filing_status'][0].enum
        for m in enum_cls:
            tasks.append((year, m.name))
    results = common.pmap(task, tasks)
    ws_rows = set()
    for r in results:
        c.paths += r['paths']
        for name, res, dt in r['obligations']:
            c.obligation(name, res, dt)
        for nm, res, dt in r['mono']:
            c.obligation('%s/%s/mono-%s' % (r['task'][0], r['task'][1], nm), res, dt, nontrivial_key=('mono', tuple(r['task']), nm, c.obligations))
        c.samples.extend(r['samples'][:1])
        c.solver_s += r['stats']['solver_s']
        for v in r['violations']:
            tops = orc['schedules'][str(v['year'])][orc['status_to_column'][v['status']]]
            rep = {'kind': 'figure_tax', 'year': v['year'], 'status': v['status'], 'x': v['x'], 'x2': v.get('x2'), 'mode': v['kind'], 'tops': tops, 'rates_pct': orc['rates_pct']}
            out = common.run_real(['figure_tax'], rep)
            c.replays_run += 1
            if out.get('reproduced'):
                c.violation(v['key'], v['what'] + ' [replayed on real code: %s]' % out.get('detail'), rep)
            else:
                c.spurious += 1
                c.inconclusive.append('witness did not reproduce: %s %s' % (v['key'], out.get('detail')))
    c.extra['pieces_per_task'] = {'%d/%s' % tuple(r['task']): r['pieces'] for r in results}
    c.extra['wall_per_task'] = {'%d/%s' % tuple(r['task']): round(r['wall'], 1) for r in results}
    # reachability / vacuity guard: every task must have produced table and worksheet pieces
    for r in results:
        if r['pieces'] < 100 and not r['violations']:
            c.inconclusive.append('vacuity: task %s produced only %d pieces' % (r['task'], r['pieces']))
    # lemma L-fp on the distinct worksheet kernels
    for year in (2021, 2022, 2023):
        mod = importlib.import_module('habutax.forms.ty%d.f1040_figure_tax' % year)
        for colrows in mod.TAX_WORKSHEET_VALUES:
            for row in colrows:
                ws_rows.add((row[2], row[3]))
    rows = sorted(ws_rows)
    if tier == 'quick':
        rows = rows[:6]
    lfp_lemma(c, rows, tier)
    return c.finish()
