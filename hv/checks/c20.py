"""C20: interrupting an interactive solve never loses input already given.

The real habutax.solve(args) (prompting + write-back, real temp files, real
configparser) is driven with a scripted input().  The session -- which inputs
are missing from the file, the prompt index k at which the session is cut and
the kind of interruption -- are SMT variables whose feasible values are
enumerated exhaustively by the path explorer (Q1: finite-domain exploration);
the base input assignment is a solver-generated solved return (whole-return
model).  Afterwards the file must parse, hold every prior value and every
answer given before the cut, and a re-run must not ask for those again.
"""
import os
import time

from .. import common, retmodel, symx
from .. import terms as tm

CANDIDATES = ['1040.occupation', '1040.filing_status', '1040.number_w-2', '1040.need_8962', '1040.estimated_tax_payments', '1040.first_name']
KINDS = ['KeyboardInterrupt', 'EOFError', 'unsupported_form', 'invalid_then_interrupt']


def sessions(tier):
    """Enumerate (removed subset, k, kind) through the explorer."""
    ex = symx.Explorer(max_paths=100000)
    nmax = 4 if tier == 'quick' else 6
    cands = CANDIDATES[:nmax]
    out = []

    def body():
        rem = []
        for j, c in enumerate(cands):
            if symx.fresh_bool('rm%d' % j):
                rem.append(c)
        if not rem:
            raise symx.PathCut('nothing to prompt')
        k = symx.fresh_int('k', 0, len(rem))
        kk = symx.cur().concretize(k.term)
        kind = KINDS[symx.cur().concretize(symx.fresh_int('kind', 0, len(KINDS) - 1).term)]
        return (tuple(rem), kk, kind)
    for p in ex.explore(body):
        if p.cut or p.exc is not None:
            continue
        out.append(p.outcome)
    return out, ex.stats


def run_one(arg):
    year, inputs, rem, k, kind = arg
    answers = {}
    intr = {'k': k, 'kind': kind}
    if kind == 'unsupported_form':
        # the user declares a Marketplace policy: Form 1040 line 17 then needs the unsupported Schedule 2
        if '1040.need_8962' not in rem:
            return None
        answers['1040.need_8962'] = 'yes'
        intr = {'k': None}
    d = {'kind': 'cli_session', 'year': year, 'forms': ['1040'], 'inputs': inputs, 'remove': list(rem), 'answers': answers, 'interrupt': intr}
    out = common.run_real(['cli_session'], d)
    return {'session': {'removed': list(rem), 'k': k, 'kind': kind}, 'findings': out['findings'], 'exc1': out['exc1'], 'asked': [a[0] for a in out['asked1']], 'replay': d}


def run(tier):
    c = common.Check('C20', tier, 'exhaustive exploration (SMT-enumerated session variables: missing-input subset, cut index k, interruption kind) of the real habutax.solve(args) with write-back over real temp files; base inputs are a solver-generated solved return',
                     ['habutax.solve (CLI path, finally: write-back)', 'habutax.prompt_input', 'habutax.inputs.InputStore.write/__setitem__', 'habutax.solver.Solver._attempt_input'])
    c.bounds = {'years': [2023] if tier == 'quick' else [2021, 2022, 2023], 'missing_inputs': 'every non-empty subset of %d candidate inputs' % (4 if tier == 'quick' else 6), 'k': 'every prompt index up to the number of missing inputs', 'kinds': KINDS}
    c.outside = ['death during the write-back itself', 'a failing line definition (no shipped line fails deterministically after a prompt; covered only through the unsupported-form abort)', 'answers other than the values of the solved base return']
    c.assumptions = ['(Q1) the session space is finite and enumerated; every session is a concrete run of the real code']
    sess, st = sessions(tier)
    c.paths += st['paths']
    years = c.bounds['years']
    jobs = []
    for y in years:
        retmodel.preload([(y, 1, {'S': 2, 'ft': 'ref', 'cents': True})])
        os.environ['HV_PRELOADED'] = '1'
        lf = retmodel.Lifter(y, 1, 2, ['1040'], ft='ref')
        r, inputs, m = lf.query([lf.rm.solved, tm.eq(tm.var('i:1040.number_w-2', 'I'), tm.I(1)), tm.not_(tm.var('i:1040.need_8962', 'B'))])
        c.obligation('ty%d/base-return' % y, 'unsat' if r == 'sat' else 'unknown', 0.0)
        if r != 'sat':
            c.inconclusive.append('no solved base return for %d' % y)
            continue
        inputs = {k: (v if v != '' else '') for k, v in inputs.items()}
        for rem, k, kind in sess:
            jobs.append((y, inputs, rem, k, kind))
    results = [r for r in common.pmap(run_one, jobs) if r is not None]
    kinds = {}
    for r in results:
        nm = 'session removed=%s k=%s kind=%s' % (r['session']['removed'], r['session']['k'], r['session']['kind'])
        ok = not r['findings']
        c.obligation(nm, 'unsat' if ok else 'sat', 0.0, sample={'session': r['session'], 'asked': r['asked'], 'exception': r['exc1'], 'findings': r['findings']})
        kinds[str(r['exc1'])] = kinds.get(str(r['exc1']), 0) + 1
        for f in r['findings']:
            rep = dict(r['replay'])
            rep['expect'] = f.split(':')[0]
            c.violation('C20:%s:%s' % (r['session']['kind'], f.split(':')[0]), 'after a session cut by %s at prompt %s (missing %s): %s' % (r['session']['kind'], r['session']['k'], r['session']['removed'], f), rep)
    c.extra['sessions'] = len(results)
    c.extra['session_exceptions'] = kinds
    if len(results) < 20:
        c.inconclusive.append('vacuity: fewer than 20 sessions ran')
    return c.finish()
