"""C04: a solution is exactly the demand closure of the requested forms.

Part 1 (deciding, generated programs): the shared algorithm harness
(hv.algo_check): on every solved end state solution keys == required lines of
participating forms + lines read by contained lines; Solver.forms == their
forms; on partial solutions nothing undemanded is stored.
Part 2 (shipped forms): for every optional form instance F of the whole-return
model (K=2 copies) z3 produces a solved return in which F takes part and one
in which it does not; each witness is run through the real Solver and the set
of (form, line) keys of the real solution must equal the model's demanded set
{L : dem[L]} and Solver.forms the model's {F : in[F]}.
"""
import os

from .. import algo_check, common, retmodel
from .. import terms as tm


def whole_dollars(rm):
    """every money input is a whole number of dollars"""
    I = rm.cat.hab_inputs
    out = []
    for name in rm.input_names():
        inp = rm.cat.input(name)
        if type(inp) is I.FloatInput and 'pct' not in inp.base_name():
            out.append(tm.eq(tm.var('i:' + name + '#k', 'I'), tm.mul(tm.I(100), tm.var('whole:' + name, 'I'))))
    return out


def year_task(arg):
    year, K, S = arg
    os.environ['HV_PROCS'] = '1'
    lf = retmodel.Lifter(year, K, S, ['1040'], ft='ref', timeout_ms=30000)
    rm = lf.rm
    res = {'year': year, 'obl': [], 'viol': [], 'samples': []}
    for f in rm.forms:
        if f in rm.requested:
            continue
        for want in (True, False):
            extra = [rm.solved, rm.inform[f] if want else tm.not_(rm.inform[f])]
            if ':1' in f:
                extra.append(rm.inform[f.replace(':1', ':0')])
            r, inputs, m = lf.query(extra)
            nm = 'ty%d/closure/%s %s' % (year, f, 'present' if want else 'absent')
            if r != 'sat':
                res['obl'].append((nm, 'unknown' if r == 'unknown' else 'unsat', 0.0))
                continue
            model_keys = sorted(n for n in rm.lines if lf.mv(m, rm.dem[n]))
            model_forms = sorted(x for x in rm.forms if lf.mv(m, rm.inform[x]))
            out = common.run_real(['solve'], {'year': year, 'forms': ['1040'], 'inputs': inputs})
            if not out['solved']:
                res['obl'].append((nm, 'unknown', 0.0))
                continue
            real_keys = sorted(out['solution'])
            real_forms = sorted(out['forms'])
            ok = real_keys == model_keys and real_forms == model_forms
            res['obl'].append((nm, 'unsat' if ok else 'sat', 0.0))
            if len(res['samples']) < 2:
                res['samples'].append({'obligation': nm, 'solution_lines': len(real_keys), 'forms': real_forms, 'equal_to_model_closure': ok})
            if not ok:
                # The model computes in exact arithmetic; the real code in binary floating point.  A
                # witness sitting exactly on a comparison boundary (e.g. interest summing to the
                # Schedule B threshold to the cent) can take the other branch by float noise.  Confirm
                # with whole-dollar inputs (integer sums are exact in floating point) before reporting.
                r2, inputs2, m2 = lf.query(extra + whole_dollars(rm))
                confirmed = False
                if r2 == 'sat':
                    mk2 = sorted(n for n in rm.lines if lf.mv(m2, rm.dem[n]))
                    mf2 = sorted(x for x in rm.forms if lf.mv(m2, rm.inform[x]))
                    out2 = common.run_real(['solve'], {'year': year, 'forms': ['1040'], 'inputs': inputs2})
                    if out2['solved'] and (sorted(out2['solution']) != mk2 or sorted(out2['forms']) != mf2):
                        confirmed = True
                        inputs, model_keys, model_forms, real_keys, real_forms = inputs2, mk2, mf2, sorted(out2['solution']), sorted(out2['forms'])
                if not confirmed:
                    res['obl'][-1] = (nm + ' (closure differs only for a witness on a floating-point comparison tie; whole-dollar witness agrees)', 'unknown', 0.0)
                    continue
                missing = [k for k in model_keys if k not in real_keys]
                extra_ = [k for k in real_keys if k not in model_keys]
                res['viol'].append({'key': 'ty%d:closure:%s' % (year, f.split(':')[0]),
                                    'what': 'solved return (%s %s): solution lacks demanded lines %s%s / holds undemanded lines %s; forms %s vs closure %s' % (
                                        f, 'present' if want else 'absent', missing[:5], '...' if len(missing) > 5 else '', extra_[:5], real_forms, model_forms),
                                    'replay': {'kind': 'solve', 'year': year, 'forms': ['1040'], 'inputs': inputs,
                                               'expect': {'kind': 'keys', 'keys': model_keys, 'forms': model_forms}}})
    return res


def extra(c, tier):
    years = [2023] if tier == 'quick' else [2021, 2022, 2023]
    K, S = (2, 2) if tier == 'quick' else (2, 3)
    retmodel.preload([(y, K, {'S': S, 'ft': 'ref', 'cents': True}) for y in years])
    os.environ['HV_PRELOADED'] = '1'
    for r in common.pmap(year_task, [(y, K, S) for y in years]):
        for nm, res, dt in r['obl']:
            c.obligation(nm, res, dt)
        c.samples.extend(r['samples'][:1])
        for v in r['viol']:
            out = common.run_real(['solve'], v['replay'])
            c.replays_run += 1
            if out.get('reproduced'):
                c.violation(v['key'], v['what'], v['replay'])
            else:
                c.inconclusive.append('witness did not reproduce: ' + v['key'])
    c.bounds['shipped_forms_part'] = {'years': years, 'copies': K, 'copies_total': S, 'witnesses': 'one solved return with and one without each optional form instance'}


def run(tier):
    return algo_check.run_property('C04', tier, extra=extra)
