"""C19: the fill step transmits values faithfully and files exactly the right forms.

Part 1 (strings): the real PDFFiller._create_fdf writes one field whose value
is a bounded symbolic printable-ASCII string into a captured file; a reference
decoder of the PDF literal-string syntax (balanced parentheses, backslash
escapes, octal) runs symbolically over the captured text; z3 must show that the
decoded value equals the original and that the dictionary closes right after
it, for every string up to the bound.
Part 2 (which forms): the real PDFFiller.fill runs with stubbed pdftk /
tempdir on solutions whose set of sections is an SMT choice; the fill_form
commands must name each needs-filing form once, no input-only form or
worksheet, in (jurisdiction, sequence) order.  Over-long values and invalid
choices must raise.
"""
import importlib
import os
import time

import z3

from .. import common, instrument, symx, rt, bstr, summary
from .. import terms as tm
from ..terms import I


class Capture(object):
    def __init__(self):
        self.parts = []

    def write(self, x):
        self.parts.append(x)

    def __enter__(self):
        return self

    def __exit__(self, *a):
        return False


def decode_literal(chars, start):
    """Reference PDF literal-string decoder over a list of code-point terms,
    starting just after the opening parenthesis.  Returns (decoded terms, index
    after the closing parenthesis) or raises ValueError when unterminated."""
    ex = symx.cur()
    out = []
    depth = 0
    k = start
    n = len(chars)

    def is_(c, ch):
        return ex.decide(tm.eq(c, I(ord(ch))))
    while k < n:
        c = chars[k]
        if is_(c, '\\'):
            k += 1
            if k >= n:
                raise ValueError('dangling backslash')
            e = chars[k]
            simple = {'n': 10, 'r': 13, 't': 9, 'b': 8, 'f': 12, '(': 40, ')': 41, '\\': 92}
            done = False
            for ch, code in simple.items():
                if is_(e, ch):
                    out.append(I(code))
                    done = True
                    break
            if not done:
                if ex.decide(tm.and_(tm.le(I(48), e), tm.le(e, I(55)))):
                    val = tm.sub(e, I(48))
                    cnt = 1
                    while cnt < 3 and k + 1 < n and ex.decide(tm.and_(tm.le(I(48), chars[k + 1]), tm.le(chars[k + 1], I(55)))):
                        k += 1
                        val = tm.add(tm.mul(val, I(8)), tm.sub(chars[k], I(48)))
                        cnt += 1
                    out.append(tm.imod(val, I(256)))
                elif is_(e, '\n'):
                    pass        # line continuation
                else:
                    out.append(e)   # backslash is ignored
            k += 1
            continue
        if is_(c, '('):
            depth += 1
            out.append(c)
        elif is_(c, ')'):
            if depth == 0:
                return out, k + 1
            depth -= 1
            out.append(c)
        else:
            out.append(c)
        k += 1
    raise ValueError('unterminated string')


def _fdf_word(w):
    return common.run_real(['fdf_value'], {'kind': 'fdf_value', 'text': w})


def fdf_task(L):
    instrument.install()
    PF = importlib.import_module('habutax.pdf_filler')
    res = {'L': L, 'paths': 0, 'obl': [], 'viol': [], 'samples': [], 'solver_s': 0.0}
    ex = symx.Explorer(timeout_ms=20000, max_paths=300000)
    holder = {}
    FIELD = 'topmostSubform[0].Page1[0].f1_04[0]'

    def body():
        v = bstr.BStr.fresh('v', L, printable=True)
        holder['v'] = v
        cap = Capture()
        old = rt._open
        rt._open = lambda *a, **k: cap
        try:
            filler = PF.PDFFiller.__new__(PF.PDFFiller)
            filler._create_fdf({FIELD: v}, '/nonexistent/x.fdf')
        finally:
            rt._open = old
        text = None
        for part in cap.parts:
            part = bstr.BStr.of(part) if isinstance(part, str) else part
            text = part if text is None else text + part
        text = text.fix_len()
        chars = text.chars[:text.n.val]
        marker = '<< /T (%s) /V (' % FIELD
        conc = ''.join(chr(c.val) if c.is_const() else '\x00' for c in chars)
        pos = conc.find(marker)
        if pos < 0:
            return ('nomarker', None, None)
        try:
            dec, after = decode_literal(chars, pos + len(marker))
        except ValueError as e:
            return ('undecodable', str(e), None)
        # what follows the value must close the dictionary
        tail = chars[after:after + 3]
        tail_ok = tm.and_(*[tm.eq(c, I(ord(ch))) for c, ch in zip(tail, ' >>')]) if len(tail) == 3 else tm.FALSE
        return ('decoded', dec, tail_ok)

    chk = z3.Solver()
    chk.set('timeout', 20000)

    def model_text(p, extra):
        chk.push()
        for r_ in p.decisions:
            chk.add(tm.to_z3(r_.term if r_.value else tm.not_(r_.term)))
        if extra is not None:
            chk.add(tm.to_z3(extra))
        r = str(chk.check())
        txt = holder['v'].model_text(chk.model()) if r == 'sat' else None
        chk.pop()
        return r, txt

    for p in ex.explore(body):
        res['paths'] += 1
        nm = 'fdf/L%d/path%d' % (L, res['paths'])
        if p.cut or p.unsupported or p.exc is not None:
            res['obl'].append((nm, 'unknown', 0.0))
            res['viol'].append({'key': None, 'what': 'path not evaluated: %s' % (p.cut or p.unsupported or repr(p.exc))})
            continue
        kind, dec, tail_ok = p.outcome
        v = holder['v']
        if kind != 'decoded':
            r, txt = model_text(p, None)
            res['obl'].append((nm, 'sat', 0.0))
            res['viol'].append({'key': 'fdf:undecodable', 'what': 'the FDF entry is not a well-formed PDF string (%s)' % dec, 'text': txt})
            continue
        # decoded == v ?
        n = tm.model_value  # noqa
        neq = []
        neq.append(tm.ne(v.n, I(len(dec))))
        for k, d in enumerate(dec):
            if k < v.L:
                neq.append(tm.and_(tm.lt(I(k), v.n), tm.ne(v.chars[k], d)))
        bad = tm.or_(tm.or_(*neq), tm.not_(tail_ok))
        t0 = time.time()
        r, txt = model_text(p, bad)
        res['solver_s'] += time.time() - t0
        res['obl'].append((nm, r, time.time() - t0))
        if r == 'sat':
            res['viol'].append({'key': 'fdf:not-faithful', 'what': 'value %r does not decode back to itself from the FDF' % txt, 'text': txt})
        if len(res['samples']) < 2:
            r2, t2 = model_text(p, None)
            res['samples'].append({'obligation': nm, 'example_value_in_region': t2, 'query': 'exists value in region: decode(fdf(value)) != value', 'result': r})
    res['stats'] = dict(ex.stats)
    return res


def forms_task(arg):
    """Which forms get filled, in which order: the real fill() on every subset
    (SMT-chosen) of the sections of a real solved solution."""
    import configparser
    year, solution = arg
    instrument.install()
    PF = importlib.import_module('habutax.pdf_filler')
    forms = importlib.import_module('habutax.forms')
    cat = summary.Catalogue(year)
    res = {'year': year, 'paths': 0, 'obl': [], 'viol': [], 'sections': []}
    classes = list(forms.available_forms[year])
    sections = {}
    for k, v in solution.items():
        sec, key = k.split('.', 1)
        sections.setdefault(sec, {})[key] = v
    names = sorted(sections)
    res['sections'] = names
    ex = symx.Explorer(max_paths=5000)
    holder = {}

    def body():
        chosen = [nm for j, nm in enumerate(names) if symx.fresh_bool('has%d' % j)]
        sol = configparser.ConfigParser()
        for nm in chosen:
            sol.add_section(nm)
            for k, v in sections[nm].items():
                sol.set(nm, k, v.replace('%', '%%'))
        holder['chosen'] = chosen
        cmds = []
        old_run = PF.subprocess.run

        def fake_run(cmd, check=True):
            cmds.append(list(cmd))
        PF.subprocess.run = fake_run
        old_create = PF.PDFFiller._create_fdf
        PF.PDFFiller._create_fdf = lambda self, data, filename: None
        try:
            f = PF.PDFFiller(sol, classes, '/nonexistent/out.pdf')
            f.fill()
        finally:
            PF.subprocess.run = old_run
            PF.PDFFiller._create_fdf = old_create
        return cmds
    for p in ex.explore(body):
        res['paths'] += 1
        chosen = holder.get('chosen', [])
        nm = 'ty%d/fill/%s' % (year, '+'.join(chosen) or 'none')
        if p.cut or p.unsupported:
            res['obl'].append((nm, 'unknown', 0.0))
            continue
        if p.exc is not None:
            # a form that refers to lines of a section that was dropped cannot be filled: not a real solution
            res['obl'].append((nm + '/incomplete-solution:' + type(p.exc).__name__, 'unsat', 0.0))
            continue
        cmds = p.outcome
        fills = [c for c in cmds if 'fill_form' in c]
        filled = [os.path.basename(c[1]) for c in fills]
        # typed values of the chosen sections, for the forms' own needs_filing()
        vals = cat.hab_values.ValueStore()
        for nmf in chosen:
            for k, v in sections[nmf].items():
                try:
                    vals['%s.%s' % (nmf, k)] = cat.field('%s.%s' % (nmf, k)).from_string(v)
                except Exception:
                    pass
        want = []
        for nmf in chosen:
            f = cat.form(nmf)
            if cat.is_copy_form(type(f)) or 'wkst' in f.name() or 'need' in f.name():
                continue       # input-only forms and worksheets are never filed
            try:
                if not f.needs_filing(vals):
                    continue
            except Exception:
                pass
            want.append(f)
        want.sort(key=lambda f: (int(f.jurisdiction), f.sequence_no))
        want_files = [os.path.basename(f.pdf_file()) for f in want if f.pdf_file()]
        ok = filled == want_files
        # every filled form goes to its own intermediate file, and the final cat lists exactly those, once each, in order
        outs = [c[c.index('output') + 1] for c in fills]
        cats = [c for c in cmds if 'cat' in c]
        ok_out = len(set(outs)) == len(outs) and len(cats) == 1 and cats[0][1:cats[0].index('cat')] == outs
        res['obl'].append((nm, 'unsat' if (ok and ok_out) else 'sat', 0.0))
        if not ok:
            res['viol'].append({'key': 'ty%d:fill-set' % year, 'what': 'solution with sections %s: filled %s, expected %s' % (chosen, filled, want_files)})
        elif not ok_out:
            res['viol'].append({'key': 'ty%d:fill-outputs' % year, 'what': 'solution with sections %s: intermediate outputs %s / cat %s: a form is overwritten or listed twice' % (chosen, [os.path.basename(o) for o in outs], [os.path.basename(x) for x in (cats[0][1:cats[0].index('cat')] if cats else [])])})
    return res


def run(tier):
    L = 3 if tier == 'quick' else 6
    c = common.Check('C19', tier, 'bounded symbolic execution of the real PDFFiller._create_fdf on a symbolic printable-ASCII value + symbolic reference decoder of the PDF literal-string syntax (z3: decoded == value on every path); the real PDFFiller.fill with stubbed pdftk on SMT-chosen sets of solution sections',
                     ['habutax.pdf_filler.PDFFiller._create_fdf', 'habutax.pdf_filler.PDFFiller.fill/_add_form/_fill_form', 'Form.needs_filing'])
    c.bounds = {'value_length': '<= %d printable ASCII characters' % L, 'forms_per_solution': '<= 3 sections, every combination', 'years': [2021, 2022, 2023]}
    c.outside = ['values longer than the bound', 'non-ASCII text', 'field names (concrete, from the mappings)', 'pdftk itself']
    c.stubs = ['open() -> capture object', 'subprocess.run -> recorder', 'reference PDF literal-string decoder (PDF 32000-1 7.3.4.2) is the oracle']
    instrument.install()
    r = fdf_task(L)
    c.paths += r['paths']
    c.solver_s += r['solver_s'] + r['stats']['solver_s']
    for nm, res, dt in r['obl']:
        c.obligation(nm, res, dt)
    c.samples.extend(r['samples'])
    seen = set()
    for v in r['viol']:
        if v['key'] is None:
            c.inconclusive.append(v['what'])
            continue
        if v['text'] is None:
            continue
        # one witness per distinct special character class
        cls = ''.join(sorted(set(ch for ch in v['text'] if ch in '()\\')))
        if (v['key'], cls) in seen:
            continue
        seen.add((v['key'], cls))
        rep = {'kind': 'fdf_value', 'text': v['text']}
        out = common.run_real(['fdf_value'], rep)
        c.replays_run += 1
        if out.get('reproduced'):
            c.violation('C19:%s:%s' % (v['key'], cls or 'other'), v['what'] + ' [real code: %s]' % out.get('detail'), rep)
        else:
            c.spurious += 1
            c.inconclusive.append('witness did not reproduce: %r (%s)' % (v['text'], out.get('detail')))
    if any(v['key'] is None for v in r['viol']):
        # The implementation did something to the value that the string encoding cannot follow
        # (e.g. a regular expression): those paths stay INCONCLUSIVE.  Supplementary, violation-only:
        # the value is concretised over one representative per character class of the PDF
        # literal-string decoder and every class word up to the bound goes through the real code.
        import itertools
        alphabet = ['\\', '(', ')', 'n', '1', 'a']
        words = [''.join(w) for n_ in range(1, min(L, 4) + 1) for w in itertools.product(alphabet, repeat=n_)]
        outs = common.pmap(_fdf_word, words)
        c.extra['supplementary_class_words'] = len(words)
        for w, out in zip(words, outs):
            if out.get('reproduced'):
                cls = ''.join(sorted(set(ch for ch in w if ch in '()\\')))
                if ('fdf:not-faithful', cls) in seen:
                    continue
                seen.add(('fdf:not-faithful', cls))
                c.replays_run += 1
                c.violation('C19:fdf:not-faithful:%s' % (cls or 'other'), 'value %r does not decode back to itself from the FDF [real code: %s]' % (w, out.get('detail')), {'kind': 'fdf_value', 'text': w})
    from .. import retmodel
    jobs = []
    for y in (2021, 2022, 2023):
        retmodel.preload([(y, 1, {'S': 2, 'ft': 'ref', 'cents': True})])
        os.environ['HV_PRELOADED'] = '1'
        lf = retmodel.Lifter(y, 1, 2, ['1040'], ft='ref')
        itemize = tm.var('i:1040.itemize', 'B')
        r_, inputs, m = lf.query([lf.rm.solved, tm.eq(tm.var('i:1040.number_w-2', 'I'), I(1)), itemize, lf.rm.inform.get('1040_sa', tm.TRUE), lf.rm.inform.get('8889:you', tm.TRUE), lf.rm.inform.get('8889:spouse', tm.TRUE)])
        if r_ != 'sat':
            r_, inputs, m = lf.query([lf.rm.solved, tm.eq(tm.var('i:1040.number_w-2', 'I'), I(1)), itemize, lf.rm.inform.get('1040_sa', tm.TRUE)])
        if r_ != 'sat':
            r_, inputs, m = lf.query([lf.rm.solved])
        if r_ != 'sat':
            c.inconclusive.append('no solved base return for %d' % y)
            continue
        out = common.run_real(['solve'], {'year': y, 'forms': ['1040'], 'inputs': inputs})
        if not out['solved']:
            c.inconclusive.append('base return for %d did not solve on the real code' % y)
            continue
        jobs.append((y, out['solution']))
    for fr in common.pmap(forms_task, jobs):
        c.extra.setdefault('solution_sections', {})[str(fr['year'])] = fr['sections']
        c.paths += fr['paths']
        for nm, res, dt in fr['obl']:
            c.obligation(nm, res, dt)
        for v in fr['viol']:
            c.violation('C19:' + v['key'], v['what'], {'kind': 'fill_set', 'detail': v['what']})
    return c.finish()
