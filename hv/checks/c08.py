"""C08: year- and status-indexed statutory amounts are the official ones.

For every entry of oracle/statutory.json and every line in which the amount
shows, the line's path-exhaustive symbolic summary (real Field.value on
symbolic inputs / line values, real Form.threshold with a symbolic status) is
restricted, by an SMT feasibility query per path, to each filing status; the
numeric constants of the feasible paths (stored value, comparison constants,
factors, rounding operands) must contain the official amount for that year and
status and none of the entry's other amounts (other years / other statuses:
stale or swapped constants).
"""
import importlib
import json
import os
import time
from fractions import Fraction

import z3

from .. import common, retmodel, summary
from .. import terms as tm

STATUS_VAR = 'i:1040.filing_status'


def load():
    with open(os.path.join(common.VERIF, 'oracle', 'statutory.json')) as f:
        return json.load(f)


def consts_of(terms_):
    acc = set()
    seen = set()
    st = list(terms_)
    while st:
        x = st.pop()
        if id(x) in seen:
            continue
        seen.add(id(x))
        if x.op == 'const' and x.sort in ('R', 'I'):
            acc.add(Fraction(x.val))
        for a in x.args:
            if isinstance(a, tm.T):
                st.append(a)
    return acc


def num(x):
    return Fraction(str(x))


def year_task(arg):
    year, K, S = arg
    os.environ['HV_PROCS'] = '1'
    spec = load()
    cat, summ, meta = retmodel.load_summaries(year, K, {'S': S, 'ft': 'uf', 'cents': True})
    f1040 = cat.form('1040')
    enum_cls = [i for i in f1040.inputs() if i.base_name() == 'filing_status'][0].enum
    members = [m.name for m in enum_cls]
    qss = members[4]
    res = {'year': year, 'obl': [], 'viol': [], 'samples': [], 'solver_s': 0.0}
    stv = tm.var(STATUS_VAR, 'I')
    for e in spec['entries']:
        y = str(year)
        if y not in e['sites']:
            continue
        universe = set()
        for yy, d in e['amounts'].items():
            for k, v in d.items():
                for a in (v if isinstance(v, list) else [v]):
                    universe.add(num(a))
        for site in e['sites'][y]:
            if site not in summ:
                res['obl'].append(('ty%d/%s/%s' % (year, e['name'], site), 'unknown', 0.0))
                res['viol'].append({'key': None, 'what': 'site line %s not found in %d' % (site, year)})
                continue
            paths = summ[site]
            amounts = e['amounts'][y]
            groups = [('all', None)] if 'all' in amounts else [(m, k) for k, m in enumerate(members)]
            for sname, sidx in groups:
                off = amounts['all'] if sidx is None else amounts[sname if sname != qss else 'QSS']
                official = set(num(a) for a in (off if isinstance(off, list) else [off]))
                found = set()
                t0 = time.time()
                nfeas = 0
                for p in paths:
                    if p.kind in ('cut', 'unsupported'):
                        continue
                    if sidx is not None:
                        s = z3.Solver()
                        s.set('timeout', 5000)
                        for c in list(p.conds) + list(p.assumes):
                            s.add(tm.to_z3(c))
                        s.add(tm.to_z3(tm.eq(stv, tm.I(sidx))))
                        if str(s.check()) == 'unsat':
                            continue
                    nfeas += 1
                    ts = list(p.conds) + list(p.assumes)
                    if p.value is not None and p.value[0] == 'num':
                        ts.append(p.value[1])
                    found |= consts_of(ts)
                dt = time.time() - t0
                res['solver_s'] += dt
                missing = official - found
                foreign = (universe - official) & found
                ok = not missing and not foreign and nfeas > 0
                nm = 'ty%d/%s/%s/%s' % (year, e['name'], site, sname)
                res['obl'].append((nm, 'unsat' if ok else 'sat', dt))
                if len(res['samples']) < 3:
                    res['samples'].append({'obligation': nm, 'official': [str(a) for a in sorted(official)], 'feasible_paths': nfeas,
                                           'constants_found': [str(a) for a in sorted(found & universe)], 'result': 'holds' if ok else 'violated'})
                if not ok:
                    what = '%s (%s): line %s, status %s, %d: ' % (e['name'], e['source'][:60], site, sname, year)
                    if missing:
                        what += 'official amount %s does not appear; ' % [float(a) for a in sorted(missing)]
                    if foreign:
                        what += 'amount(s) %s of another year/status appear; ' % [float(a) for a in sorted(foreign)]
                    if nfeas == 0:
                        what += 'no feasible path for this status; '
                    others = sorted(a for a in found if a not in universe and a >= 50)
                    what += 'constants on the feasible paths: %s' % [float(a) for a in sorted(found) if a >= 50 or 0 < a < 1][:12]
                    res['viol'].append({'key': 'ty%d:%s:%s:%s' % (year, e['name'], site, sname), 'what': what, 'site': site,
                                        'bad': [str(a) for a in sorted(foreign)], 'missing': [str(a) for a in sorted(missing)]})
    return res


def run(tier):
    K, S = (1, 2)
    c = common.Check('C08', tier, 'path-exhaustive symbolic summaries of the real line definitions (incl. the real Form.threshold on a symbolic status), each path restricted to a filing status by an SMT feasibility query; the constants of the feasible paths are compared with an independent table of published amounts',
                     ['Field.value of every site line of oracle/statutory.json (all years)', 'habutax.form.Form.threshold'])
    spec = load()
    c.bounds = {'years': [2021, 2022, 2023], 'statuses': 'all 5 per year', 'entries': len(spec['entries'])}
    c.outside = ['amounts not listed in oracle/statutory.json (e.g. educator-expense cap): not checked', 'whether the constant is used in the right formula (C02)']
    c.assumptions = ['oracle/statutory.json transcribes the cited sources correctly', 'an amount "shows" in a line when it occurs as a constant of a feasible path (value, comparison, factor, rounding operand)']
    retmodel.preload([(y, K, {'S': S, 'ft': 'uf', 'cents': True}) for y in (2021, 2022, 2023)])
    os.environ['HV_PRELOADED'] = '1'
    results = common.pmap(year_task, [(y, K, S) for y in (2021, 2022, 2023)])
    for r in results:
        c.solver_s += r['solver_s']
        for nm, res, dt in r['obl']:
            c.obligation(nm, res, 0.0)
        c.samples.extend(r['samples'][:2])
        for v in r['viol']:
            if v['key'] is None:
                c.inconclusive.append(v['what'])
                continue
            rep = {'kind': 'statutory', 'year': r['year'], 'site': v['site'], 'bad': v['bad'], 'missing': v['missing']}
            out = common.run_real(['statutory'], rep)
            c.replays_run += 1
            if out.get('reproduced'):
                c.violation(v['key'], v['what'] + ' [real source: %s]' % out.get('detail'), rep)
            else:
                c.spurious += 1
                c.inconclusive.append('not confirmed on the real source: %s (%s)' % (v['key'], out.get('detail')))
    return c.finish()
