"""C16: returns respond to input changes the way tax law requires.

(a) Renumbering copies: for K=2 copies of every input form, each line's
    path-exhaustive summary must be invariant under swapping instance 0 and 1
    (SMT: exists values with f_L(x) != f_L(pi x) must be unsat), except the
    per-payer listing lines; by induction along the acyclic read graph the
    whole return is then invariant.
(b) Monotonicity / exact response: relational SMT queries on two copies of the
    whole-return model that differ in one input: wages up => total tax not
    lower; a deductible expense up => not higher; withholding + d => (34 - 37)
    moves by exactly d.  Both copies must solve.  figure_tax is the schedule
    term C07 verifies.  Timeouts are reported INCONCLUSIVE.
"""
import os
import re
import time

import z3

from .. import common, retmodel, summary
from .. import terms as tm

LISTING = re.compile(r'^(1040_sb\.(1_|5_|payer|name|amount)|1040_sb\.\d+_(payer|amount)|.*_type$|.*_desc$)')


def swap_name(name, form):
    a, b = '%s:0.' % form, '%s:1.' % form
    if a in name:
        return name.replace(a, b)
    if b in name:
        return name.replace(b, a)
    return name


def relation(paths, lvar_out):
    """R(vars, out): disjunction over value paths of (conds and assumes and out == value)."""
    alts = []
    other = []
    for p in paths:
        c = tm.and_(*(list(p.conds) + list(p.assumes)))
        if p.kind == 'value':
            alts.append((c, p.value))
        else:
            other.append((c, p.kind))
    return alts, other


def sym_task(arg):
    year, form = arg
    os.environ['HV_PROCS'] = '1'
    K, S = 2, 2
    cat, summ, meta = retmodel.load_summaries(year, K, {'S': S, 'ft': 'uf', 'cents': True})
    res = {'year': year, 'form': form, 'obl': [], 'viol': [], 'samples': [], 'solver_s': 0.0, 'lines': 0}
    for n, paths in summ.items():
        if n.startswith(form + ':'):
            continue
        # only lines that mention the instances
        mentions = False
        names = {}
        for p in paths:
            for t in list(p.conds) + list(p.assumes) + ([p.value[1]] if p.value and p.value[0] in ('num', 'enum') else []):
                tm.free_vars(t, names)
        if not any(('%s:0.' % form) in v or ('%s:1.' % form) in v for v in names):
            continue
        res['lines'] += 1
        if len(paths) > 300:
            res['obl'].append(('ty%d/renumber/%s/%s (%d paths: too large)' % (year, form, n, len(paths)), 'unknown', 0.0))
            continue
        mapping = {v: tm.var(swap_name(v, form), srt) for v, srt in names.items() if swap_name(v, form) != v}
        # one relational query per line: R(x, o1) and R(pi x, o2) and o1 != o2, where
        # R(x, o) = OR_p (conds_p(x) and o == outcome_p(x)); outcome = (kind code, value)
        t0 = time.time()
        plist = [p for p in paths if p.kind not in ('cut',)]
        kinds = sorted(set(p.kind for p in plist))
        k1, k2 = tm.var('o1#kind', 'I'), tm.var('o2#kind', 'I')
        vsort = None
        for p in plist:
            if p.kind == 'value' and p.value[0] in ('num', 'enum'):
                vsort = p.value[1].sort
        compare_values = vsort is not None and not LISTING.match(n)
        if compare_values:
            v1, v2 = tm.var('o1#val', vsort), tm.var('o2#val', vsort)

        def rel(kvar, vvar, sub):
            alts = []
            for p in plist:
                c = tm.and_(*(list(p.conds) + list(p.assumes)))
                parts = [c, tm.eq(kvar, tm.I(kinds.index(p.kind)))]
                if compare_values and p.kind == 'value' and p.value[0] in ('num', 'enum') and p.value[1].sort == vsort:
                    parts.append(tm.eq(vvar, p.value[1]))
                t = tm.and_(*parts)
                alts.append(tm.subst(t, sub) if sub else t)
            return tm.or_(*alts)
        s = z3.Solver()
        s.set('timeout', 30000)
        s.add(tm.to_z3(rel(k1, v1 if compare_values else None, None)))
        # the swapped copy must not rename the output variables
        s.add(tm.to_z3(rel(k2, v2 if compare_values else None, mapping)))
        # renumbering permutes the copies that exist: both copies are present
        s.add(tm.to_z3(tm.eq(tm.var('i:1040.number_%s' % form, 'I'), tm.I(2))))
        diffs = [tm.ne(k1, k2)]
        if compare_values:
            diffs.append(tm.and_(tm.eq(k1, tm.I(kinds.index('value'))) if 'value' in kinds else tm.FALSE, tm.ne(v1, v2)))
        s.add(tm.to_z3(tm.or_(*diffs)))
        r = str(s.check())
        bad = None if r == 'unsat' else ('unknown' if r == 'unknown' else 'differs')
        dt = time.time() - t0
        res['solver_s'] += dt
        nm = 'ty%d/renumber/%s/%s' % (year, form, n)
        if LISTING.match(n):
            res['obl'].append((nm + ' (listing line, exempt)', 'unsat', 0.0))
            continue
        res['obl'].append((nm, 'unknown' if bad == 'unknown' else ('sat' if bad else 'unsat'), dt))
        if len(res['samples']) < 2:
            res['samples'].append({'obligation': nm, 'query': 'exists values: line(x) != line(x with %s:0 and %s:1 swapped)' % (form, form), 'paths': len(plist), 'result': 'sat' if bad else 'unsat'})
        if bad and bad != 'unknown':
            res['viol'].append({'key': 'ty%d:renumber:%s:%s' % (year, form, n), 'what': 'line %s changes when the two copies of %s are renumbered' % (n, form)})
    return res


def rename_all(terms_, names, suffix):
    mapping = {v: tm.var(v + suffix, srt) for v, srt in names.items()}
    return [tm.subst(t, mapping) for t in terms_], mapping


def mono_task(arg):
    year, which, timeout_ms = arg
    os.environ['HV_PROCS'] = '1'
    lf = retmodel.Lifter(year, 1, 2, ['1040'], ft='ref', nonneg=True, timeout_ms=timeout_ms)
    rm = lf.rm
    res = {'year': year, 'which': which, 'obl': [], 'viol': []}
    base = [lf.rx(c) for c in rm.constraints + rm.input_domains()] + [lf.rx(rm.solved)]
    names = {}
    for c in base:
        tm.free_vars(c, names)
    copy2, mapping = rename_all(base, names, '@2')
    inputs = [v for v in names if v.startswith('i:')]
    spec = {'wages': ('i:w-2:0.box_1#k', +1), 'withholding': ('i:w-2:0.box_2#k', +1), 'deduction': ('i:1040_sa.state_local_real_estate_taxes#k', +1)}[which]
    pert = spec[0]
    if pert not in names:
        res['obl'].append(('ty%d/%s' % (year, which), 'unknown', 0.0))
        res['viol'].append({'key': None, 'what': 'perturbed input %s not in the model' % pert})
        return res
    eqs = []
    for v in inputs:
        if v == pert:
            continue
        eqs.append(tm.eq(tm.var(v, names[v]), tm.var(v + '@2', names[v])))
    d = tm.var('delta', 'I')
    eqs.append(tm.le(tm.I(1), d))
    eqs.append(tm.eq(tm.var(pert + '@2', 'I'), tm.add(tm.var(pert, 'I'), d)))

    def L(line, c2=False):
        t = lf.rx(rm.lvar[line][1])
        return tm.subst(t, mapping) if c2 else t
    extra = []
    if which == 'wages':
        extra.append(tm.eq(tm.var('i:1040.number_w-2', 'I'), tm.I(1)))
        bad = tm.lt(L('1040.24', True), L('1040.24'))
        desc = 'wages up by delta >= 0.01 and total tax (1040.24) lower'
    elif which == 'deduction':
        extra.append(tm.var('i:1040.itemize', 'B'))
        bad = tm.lt(L('1040.24'), L('1040.24', True))
        desc = 'real-estate tax deduction up and total tax (1040.24) higher'
    else:
        extra.append(tm.eq(tm.var('i:1040.number_w-2', 'I'), tm.I(1)))
        lhs = tm.sub(tm.sub(L('1040.34', True), L('1040.37', True)), tm.sub(L('1040.34'), L('1040.37')))
        bad = tm.ne(lhs, tm.div(tm.to_real(d), tm.R(100)))
        desc = 'withholding up by delta and refund-minus-owed not up by exactly delta'
    s = z3.Solver()
    s.set('timeout', timeout_ms)
    for c in base + copy2 + eqs + extra + [bad]:
        s.add(tm.to_z3(c))
    t0 = time.time()
    r = str(s.check())
    dt = time.time() - t0
    res['obl'].append(('ty%d/%s' % (year, which), r, dt, 'exists two solved returns differing only in %s: %s' % (pert, desc)))
    if r == 'sat':
        m = s.model()
        inp1 = rm.extract_inputs(m)
        dv = tm.model_value(m, d)
        res['viol'].append({'key': 'ty%d:%s' % (year, which), 'what': desc, 'inputs': inp1, 'pert': pert[2:-2], 'delta': str(dv), 'which': which})
    return res


def run(tier):
    c = common.Check('C16', tier, 'relational SMT queries: (a) per-line summary invariance under swapping two copies of an input form (modular, inductive along the read graph); (b) two renamed copies of the whole-return model differing in one input (monotonicity of total tax in wages / deductions, exact response of refund-minus-owed to withholding)',
                     ['Field.value of every line that reads a numbered copy (K=2)', 'whole-return model of Form 1040 (two copies)', 'figure_tax as the rate-schedule term verified by C07'])
    years = [2023] if tier == 'quick' else [2021, 2022, 2023]
    forms = ['w-2', '1099-int', '1099-div', '1099-r', '1099-g', '1098']
    c.bounds = {'years': years, 'copies': 2, 'amounts': '0 <= x <= 1e8, whole cents', 'delta': 'any positive number of cents', 'relational_timeout_s': 120}
    c.outside = ['3 or more copies (thorough tier of the renumbering check uses K=2 as well)', 'simultaneous changes of several inputs', 'NC forms in the monotonicity queries']
    c.assumptions = ['per-payer listing lines are exempt from the renumbering invariance (name pattern)', 'induction: if every line is invariant given invariant reads, the return is invariant (read graph acyclic, C03/C04)']
    specs = [(y, 2, {'S': 2, 'ft': 'uf', 'cents': True}) for y in years] + [(y, 1, {'S': 2, 'ft': 'ref', 'cents': True, 'nonneg': True}) for y in years]
    retmodel.preload(specs)
    os.environ['HV_PRELOADED'] = '1'
    tasks = [(y, f) for y in years for f in forms]
    for r in common.pmap(sym_task, tasks):
        c.solver_s += r['solver_s']
        for nm, res, dt in r['obl']:
            c.obligation(nm, res, dt)
        c.samples.extend(r['samples'][:1])
        for v in r['viol']:
            c.violation(v['key'], v['what'], {'kind': 'renumber', 'detail': v['what']})
        c.extra.setdefault('lines_reading_copies', {})['%d/%s' % (r['year'], r['form'])] = r['lines']
    mtasks = [(y, w, 60000 if tier == 'quick' else 300000) for y in years for w in ('wages', 'withholding', 'deduction')]
    for r in common.pmap(mono_task, mtasks):
        for o in r['obl']:
            c.obligation(o[0], o[1], o[2], sample={'obligation': o[0], 'query': o[3] if len(o) > 3 else '', 'result': o[1]})
        for v in r['viol']:
            if v['key'] is None:
                c.inconclusive.append(v['what'])
                continue
            rep = {'kind': 'metamorphic', 'year': r['year'], 'forms': ['1040'], 'inputs': v['inputs'], 'input': v['pert'], 'delta_cents': v['delta'], 'which': v['which']}
            out = common.run_real(['metamorphic'], rep)
            c.replays_run += 1
            if out.get('reproduced'):
                c.violation(v['key'], v['what'] + ' [real solves: %s]' % out.get('detail'), rep)
            else:
                c.spurious += 1
                c.inconclusive.append('witness did not reproduce: %s (%s)' % (v['key'], out.get('detail')))
    return c.finish()
