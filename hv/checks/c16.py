"""C16: returns respond to input changes the way tax law requires.

(a) Renumbering copies: for K=2 copies of every input form, each line's
    path-exhaustive summary must be invariant under swapping instance 0 and 1
    (SMT: exists values with f_L(x) != f_L(pi x) must be unsat), except the
    per-payer listing lines; by induction along the acyclic read graph the
    whole return is then invariant.
(b) Monotonicity / exact response: relational SMT queries on two copies of the
    whole-return model that differ in one input: wages up => total tax not
    lower; a deductible expense up => not higher; withholding + d => (34 - 37)
    moves by exactly d.  Both copies must solve.  figure_tax is the schedule
    term C07 verifies.  Timeouts are reported INCONCLUSIVE.
"""
import os
import re
import time

import z3

from .. import common, retmodel, summary
from .. import terms as tm

LISTING = re.compile(r'^(1040_sb\.(1_|5_|payer|name|amount)|1040_sb\.\d+_(payer|amount)|.*_type$|.*_desc$)')


def swap_name(name, form):
    a, b = '%s:0.' % form, '%s:1.' % form
    if a in name:
        return name.replace(a, b)
    if b in name:
        return name.replace(b, a)
    return name


def relation(paths, lvar_out):
    """R(vars, out): disjunction over value paths of (conds and assumes and out == value)."""
    alts = []
    other = []
    for p in paths:
        c = tm.and_(*(list(p.conds) + list(p.assumes)))
        if p.kind == 'value':
            alts.append((c, p.value))
        else:
            other.append((c, p.kind))
    return alts, other


def concretise(cat, model, names):
    """model values of the variables of one line summary -> ({input: text}, {line: text})"""
    from fractions import Fraction
    I_, F_ = cat.hab_inputs, cat.hab_fields
    ins, vals = {}, {}
    owners = set()
    for v in names:
        kind, owner = owner_of(v)
        if kind in ('input', 'line'):
            owners.add((kind, owner))
    tok = {}

    def mv(name, srt):
        return tm.model_value(model, tm.var(name, srt))
    for kind, owner in sorted(owners):
        try:
            if kind == 'input':
                inp = cat.input(owner)
                t = type(inp)
                vn = 'i:' + owner
                if t is I_.BooleanInput:
                    ins[owner] = 'yes' if mv(vn, 'B') else 'no'
                elif t is I_.IntegerInput:
                    ins[owner] = str(mv(vn, 'I'))
                elif t is I_.FloatInput:
                    ins[owner] = retmodel.frac_to_text(Fraction(mv(vn + '#k', 'I'), 100)) if (vn + '#k') in names else retmodel.frac_to_text(mv(vn, 'R'))
                elif t is I_.EnumInput:
                    k = mv(vn, 'I')
                    members = list(inp.enum)
                    ins[owner] = '' if k < 0 or k >= len(members) else members[k].name
                elif t is I_.SSNInput:
                    ins[owner] = '123-45-6789'
                elif t is I_.RegexInput:
                    ins[owner] = '011000015' if 'routing' in owner else '12345'
                else:
                    ins[owner] = '' if ((vn + '#empty') in names and mv(vn + '#empty', 'B')) else tok.setdefault(mv(vn + '#id', 'I') if (vn + '#id') in names else 0, 'T%d' % len(tok))
            else:
                fld = cat.field(owner)
                t = type(fld)
                vn = 'v:' + owner
                if t is F_.FloatField:
                    vals[owner] = fld.to_string(float(Fraction(mv(vn + '#k', 'I'), 10 ** fld._places)))
                elif t is F_.IntegerField:
                    vals[owner] = str(mv(vn, 'I'))
                elif t is F_.BooleanField:
                    vals[owner] = 'True' if mv(vn, 'B') else 'False'
                elif t is F_.EnumField:
                    k = mv(vn, 'I')
                    members = list(fld.enum())
                    vals[owner] = '' if k < 0 or k >= len(members) else members[k].name
                else:
                    vals[owner] = '' if ((vn + '#empty') in names and mv(vn + '#empty', 'B')) else tok.setdefault(mv(vn + '#id', 'I') if (vn + '#id') in names else 0, 'T%d' % len(tok))
        except Exception:
            continue
    return ins, vals


ROW = re.compile(r'^(.*_)(\d+)$')


def _names_of(paths):
    names = {}
    for p in paths:
        for t in list(p.conds) + list(p.assumes) + ([p.value[1]] if p.value and p.value[0] in ('num', 'enum') else []) + (list(p.value[1:3]) if p.value and p.value[0] == 'str' else []):
            if isinstance(t, tm.T):
                tm.free_vars(t, names)
    return names


def sym_task(arg):
    """Renumbering invariance, inductive along the read graph.  Per-payer listing rows are not
    invariant but *equivariant*: row k is a function of copy k, so swapping copies 0 and 1 swaps
    rows 0 and 1 (checked: row0(x) == row1(pi x)); every other line must be invariant when the
    copies and the rows they drive are swapped together."""
    year, form = arg
    os.environ['HV_PROCS'] = '1'
    K, S = 2, 2
    cat, summ, meta = retmodel.load_summaries(year, K, {'S': S, 'ft': 'uf', 'cents': True})
    res = {'year': year, 'form': form, 'obl': [], 'viol': [], 'samples': [], 'solver_s': 0.0, 'lines': 0}
    c0, c1 = '%s:0.' % form, '%s:1.' % form
    # ---- row families driven by this form
    fam = {}
    for n, paths in summ.items():
        m = ROW.match(n)
        if not m or not LISTING.match(n) or int(m.group(2)) > 1:
            continue
        k = int(m.group(2))
        nm_ = _names_of(paths)
        mine, other = ('%s:%d.' % (form, k)), ('%s:%d.' % (form, 1 - k))
        if any(mine in v for v in nm_) and not any(other in v for v in nm_):
            fam.setdefault(m.group(1), set()).add(k)
    families = sorted(p for p, ks in fam.items() if ks == {0, 1})

    def swap2(v):
        w = swap_name(v, form)
        if w != v:
            return w
        for pre in families:
            for a, b in (('0', '1'), ('1', '0')):
                base = 'v:' + pre + a
                if v == base or v.startswith(base + '#'):
                    return 'v:' + pre + b + v[len(base):]
        return v

    def relational(n, pathsA, pathsB, label, compare_values):
        """exists x: outcome_A(x) != outcome_B(pi x) ?"""
        names = _names_of(pathsA)
        for k_, v_ in _names_of(pathsB).items():
            names.setdefault(k_, v_)
        mapping = {v: tm.var(swap2(v), srt) for v, srt in names.items() if swap2(v) != v}
        # Rounding results are functional symbols named by the digest of the rounded term.  In the
        # swapped copy a symbol whose argument mentions the copies must be the symbol of the
        # *swapped* argument (otherwise one symbol would be tied to two different arguments, which
        # over-constrains the query, or two symbols for equal arguments could break a tie differently).
        rpairs = {}
        for p in list(pathsA) + list(pathsB):
            for asm in p.assumes:
                if asm.op == 'and' and len(asm.args) == 2 and asm.args[0].op == 'le' and asm.args[0].args[0].op == 'sub':
                    r_, t_ = asm.args[0].args[0].args
                    fv = tm.free_vars(r_)
                    if len(fv) == 1 and list(fv)[0].startswith('rnd'):
                        rpairs[list(fv)[0]] = (r_, t_, list(fv.values())[0])
        changed, rounds = True, 0
        while changed and rounds < 6:
            changed = False
            rounds += 1
            for rn, (r_, t_, srt) in rpairs.items():
                t2 = tm.subst(t_, mapping)
                if t2 is t_:
                    continue
                head, _, rest = rn.partition('!')
                new = '%s!%s_%s' % (head, tm.digest(t2), rest.split('_', 1)[1])
                if new != rn and (rn not in mapping or mapping[rn].val != new):
                    mapping[rn] = tm.var(new, srt)
                    changed = True
        lemmas = []
        orig_names = set(rpairs)
        for rn, (r_, t_, srt) in rpairs.items():
            if rn in mapping and mapping[rn].val not in orig_names:
                r2, t2 = tm.subst(r_, mapping), tm.subst(t_, mapping)
                for rn1, (r1, t1, _) in rpairs.items():
                    if rn1 in mapping or any(swap2(v) != v for v in tm.free_vars(t1)):
                        lemmas.append(tm.implies(tm.eq(t1, t2), tm.eq(r1, r2)))
        t0 = time.time()
        pA = [p for p in pathsA if p.kind not in ('cut',)]
        pB = [p for p in pathsB if p.kind not in ('cut',)]
        kinds = sorted(set(p.kind for p in pA + pB))
        k1, k2 = tm.var('o1#kind', 'I'), tm.var('o2#kind', 'I')
        vsort, is_str = None, False
        for p in pA + pB:
            if p.kind == 'value' and p.value[0] in ('num', 'enum'):
                vsort = p.value[1].sort
            elif p.kind == 'value' and p.value[0] == 'str':
                is_str = True
        cmpv = compare_values and (vsort is not None or is_str)
        if cmpv and vsort is not None:
            outs1, outs2 = [tm.var('o1#val', vsort)], [tm.var('o2#val', vsort)]
        elif cmpv:
            outs1, outs2 = [tm.var('o1#id', 'I'), tm.var('o1#empty', 'B')], [tm.var('o2#id', 'I'), tm.var('o2#empty', 'B')]
        else:
            outs1 = outs2 = []

        def rel(plist, kvar, outs, sub):
            alts = []
            for p in plist:
                c_ = tm.and_(*(list(p.conds) + list(p.assumes)))
                parts = [c_]
                if cmpv and p.kind == 'value' and vsort is not None and p.value[0] in ('num', 'enum') and p.value[1].sort == vsort:
                    parts.append(tm.eq(tm.var('o1#val', vsort), p.value[1]))
                elif cmpv and p.kind == 'value' and vsort is None and p.value[0] == 'str':
                    # an empty text has no identity: only non-empty texts are compared by identity
                    parts.append(tm.eq(tm.var('o1#empty', 'B'), p.value[2]))
                    parts.append(tm.implies(tm.not_(p.value[2]), tm.eq(tm.var('o1#id', 'I'), p.value[1])))
                t = tm.and_(*parts)
                if sub:
                    t = tm.subst(t, sub)
                # output variables are tied after the substitution (the swap never renames them)
                t = tm.subst(t, {'o1#val': outs[0]} if (cmpv and vsort is not None) else ({'o1#id': outs[0], 'o1#empty': outs[1]} if cmpv else {}))
                alts.append(tm.and_(t, tm.eq(kvar, tm.I(kinds.index(p.kind)))))
            return tm.or_(*alts)
        s = z3.Solver()
        s.set('timeout', 30000)
        s.add(tm.to_z3(rel(pA, k1, outs1, None)))
        s.add(tm.to_z3(rel(pB, k2, outs2, mapping)))
        # renumbering permutes the copies that exist: both copies are present
        s.add(tm.to_z3(tm.eq(tm.var('i:1040.number_%s' % form, 'I'), tm.I(2))))
        for lm in lemmas[:20000]:
            s.add(tm.to_z3(lm))
        diffs = [tm.ne(k1, k2)]
        if cmpv and 'value' in kinds:
            both = tm.and_(tm.eq(k1, tm.I(kinds.index('value'))), tm.eq(k2, tm.I(kinds.index('value'))))
            if vsort is not None:
                diffs.append(tm.and_(both, tm.ne(outs1[0], outs2[0])))
            else:
                diffs.append(tm.and_(both, tm.or_(tm.ne(outs1[1], outs2[1]), tm.and_(tm.not_(outs1[1]), tm.ne(outs1[0], outs2[0])))))
        s.add(tm.to_z3(tm.or_(*diffs)))
        r = str(s.check())
        dt = time.time() - t0
        res['solver_s'] += dt
        nm = 'ty%d/%s/%s/%s' % (year, label, form, n)
        res['obl'].append((nm, r, dt))
        if len(res['samples']) < 2:
            res['samples'].append({'obligation': nm, 'query': 'exists values: line(x) != line(x with %s:0 and %s:1 swapped)' % (form, form), 'paths': len(pA), 'result': r})
        if r == 'sat':
            ins_, vals_ = concretise(cat, s.model(), names)
            return ins_, vals_
        return None

    for n, paths in summ.items():
        if n.startswith(form + ':'):
            continue
        m = ROW.match(n)
        if m and m.group(1) in families and LISTING.match(n):
            if m.group(2) == '0':
                res['lines'] += 1
                w = relational(n, paths, summ[m.group(1) + '1'], 'renumber-rows', True)
                if w is not None:
                    res['viol'].append({'key': 'ty%d:renumber-rows:%s:%s' % (year, form, n), 'what': 'listing row %s of copy 0 differs from row %s1 of the same copy renumbered as 1' % (n, m.group(1)),
                                        'replay': {'kind': 'line_fn', 'year': year, 'line': n, 'line_swapped': m.group(1) + '1', 'form': form, 'families': families, 'inputs': w[0], 'values': w[1]}})
            continue
        names = _names_of(paths)
        if not any(swap2(v) != v for v in names):
            continue        # mentions neither the copies nor the rows they drive
        res['lines'] += 1
        if len(paths) > 400:
            res['obl'].append(('ty%d/renumber/%s/%s (%d paths: too large)' % (year, form, n, len(paths)), 'unknown', 0.0))
            continue
        if LISTING.match(n):
            res['obl'].append(('ty%d/renumber/%s/%s (listing line outside a row family, exempt)' % (year, form, n), 'unsat', 0.0))
            continue
        w = relational(n, paths, paths, 'renumber', True)
        if w is not None:
            res['viol'].append({'key': 'ty%d:renumber:%s:%s' % (year, form, n), 'what': 'line %s changes when the two copies of %s are renumbered' % (n, form),
                                'replay': {'kind': 'line_fn', 'year': year, 'line': n, 'form': form, 'families': families, 'inputs': w[0], 'values': w[1]}})
    res['row_families'] = families
    return res


def rename_all(terms_, names, suffix):
    mapping = {v: tm.var(v + suffix, srt) for v, srt in names.items()}
    return [tm.subst(t, mapping) for t in terms_], mapping


def owner_of(var):
    """line / input that a summary variable belongs to"""
    base = var
    for suf in ('#k', '#id', '#empty', '#blank'):
        if base.endswith(suf):
            base = base[:-len(suf)]
    if base.startswith('v:'):
        return ('line', base[2:])
    if base.startswith('i:'):
        return ('input', base[2:])
    return ('other', var)


def collect_apps(t, pred, acc):
    seen = set()
    st = [t]
    while st:
        x = st.pop()
        if id(x) in seen:
            continue
        seen.add(id(x))
        if pred(x):
            acc.append(x)
        for y in x.args:
            if isinstance(y, tm.T):
                st.append(y)


def modular_task(arg):
    """Assume-guarantee inference of how every line of the 1040 closure responds
    to raising one input: classes same / up / down / plus(delta), each proved by
    one relational SMT query on the line's own summary given the classes of
    what it reads (induction along the acyclic read graph)."""
    year, which = arg
    os.environ['HV_PROCS'] = '1'
    so = {'S': 2, 'ft': os.environ.get('HV_C16_FT', 'uf'), 'cents': True, 'nonneg': True}
    rm = retmodel.ReturnModel(year, 1, ['1040'], sopts=so)
    pert = {'wages': 'w-2:0.box_1', 'withholding': 'w-2:0.box_2', 'deduction': '1040_sa.state_local_real_estate_taxes'}[which]
    res = {'year': year, 'which': which, 'obl': [], 'classes': {}, 'samples': [], 'final': None}
    # topological order of the closure
    g = {n: set() for n in rm.lines}
    for n in rm.lines:
        for p in rm.summ[n]:
            for kind, name, _ in p.reads:
                if kind == 'read_line' and name in g and name != n:
                    g[n].add(name)
    order, done = [], set()

    def visit(n):
        stack = [(n, iter(sorted(g[n])))]
        while stack:
            node, it = stack[-1]
            nxt = next(it, None)
            if nxt is None:
                stack.pop()
                if node not in done:
                    done.add(node)
                    order.append(node)
            elif nxt not in done:
                stack.append((nxt, iter(sorted(g[nxt]))))
    for n in sorted(g):
        if n not in done:
            visit(n)
    cls = {}
    delta = tm.var('delta#k', 'I')          # cents
    dreal = tm.div(tm.to_real(delta), tm.R(100))

    def definition(m):
        """relation 'm has a value and it is what its definition yields'"""
        alts = []
        lv = rm.lvar[m]
        for p in rm.summ[m]:
            if p.kind != 'value':
                continue
            parts = list(p.conds) + list(p.assumes)
            if lv[0] in ('num', 'enum') and p.value[0] == lv[0]:
                parts.append(tm.eq(lv[1], p.value[1]))
            elif lv[0] == 'str' and p.value[0] == 'str':
                parts.append(tm.and_(tm.eq(lv[1], p.value[1]), tm.eq(lv[2], p.value[2])))
            alts.append(tm.and_(*parts))
        return tm.or_(*alts) if alts else tm.TRUE
    def classify(n, deep):
        paths = [p for p in rm.summ[n] if p.kind not in ('cut',)]
        kinds = sorted(set(p.kind for p in paths))
        if 'value' not in kinds:
            return 'any', 0.0
        vsort = None
        for p in paths:
            if p.kind == 'value' and p.value[0] in ('num', 'enum'):
                vsort = p.value[1].sort
        k1, k2 = tm.var('o1#kind', 'I'), tm.var('o2#kind', 'I')
        v1 = tm.var('o1#val', vsort) if vsort else None
        v2 = tm.var('o2#val', vsort) if vsort else None
        alts = []
        for p in paths:
            parts = list(p.conds) + list(p.assumes) + [tm.eq(k1, tm.I(kinds.index(p.kind)))]
            if vsort and p.kind == 'value' and p.value[0] in ('num', 'enum') and p.value[1].sort == vsort:
                parts.append(tm.eq(v1, p.value[1]))
            alts.append(tm.and_(*parts))
        R1 = tm.or_(*alts)
        # inline (two levels) the definitions of lines read whose response could not be classified:
        # their correlation with other reads is what the class abstraction loses
        inlined = set()
        frontier = [R1]
        for depth in range(14 if deep else 2):
            nv = {}
            for t_ in frontier:
                tm.free_vars(t_, nv)
            frontier = []
            for v in sorted(nv):
                kind_, owner = owner_of(v)
                if kind_ == 'line' and owner != n and owner in rm.summ and (deep or cls.get(owner, 'any') == 'any') and (deep or cls.get(owner) != 'same') and owner not in inlined and len(rm.summ[owner]) <= 40 and len(inlined) < 90:
                    inlined.add(owner)
                    d_ = definition(owner)
                    frontier.append(d_)
                    R1 = tm.and_(R1, d_)
        names = tm.free_vars(R1)
        names.pop('o1#kind', None)
        names.pop('o1#val', None)
        mapping = {v: tm.var(v + '@2', srt) for v, srt in names.items()}
        mapping['o1#kind'] = k2
        if vsort:
            mapping['o1#val'] = v2
        R2 = tm.subst(R1, mapping)
        cons = [R1, R2, tm.eq(k1, tm.I(kinds.index('value'))), tm.eq(k2, tm.I(kinds.index('value'))), tm.le(tm.I(1 if which == 'withholding' else 100), delta)]
        if which in ('wages', 'withholding'):
            cons.append(tm.eq(tm.var('i:1040.number_w-2', 'I'), tm.I(1)))
        # how the things this line reads respond
        for v, srt in names.items():
            kind, owner = owner_of(v)
            a, b2 = tm.var(v, srt), tm.var(v + '@2', srt)
            if kind == 'input':
                if owner == pert and v.endswith('#k'):
                    cons.append(tm.eq(b2, tm.add(a, delta)))
                else:
                    cons.append(tm.eq(a, b2))
            elif kind == 'line':
                c_ = cls.get(owner, 'any')
                if srt == 'B' or not v.endswith('#k') and srt != 'I':
                    if c_ == 'same':
                        cons.append(tm.eq(a, b2))
                elif c_ == 'same':
                    cons.append(tm.eq(a, b2))
                elif c_ == 'up':
                    cons.append(tm.le(a, b2))
                elif c_ == 'down':
                    cons.append(tm.le(b2, a))
                elif c_ == 'plus' and v.endswith('#k'):
                    fld = rm.cat.field(owner)
                    cons.append(tm.eq(tm.div(tm.to_real(b2), tm.R(10 ** fld._places)), tm.add(tm.div(tm.to_real(a), tm.R(10 ** fld._places)), dreal)))
        # monotone rounding and monotone tax function lemmas
        for p in paths + [q for m_ in inlined for q in rm.summ[m_]]:
            for asm in p.assumes:
                if asm.op == 'and' and len(asm.args) == 2 and asm.args[0].op == 'le' and asm.args[0].args[0].op == 'sub':
                    r_, t_ = asm.args[0].args[0].args
                    fv = tm.free_vars(r_)
                    if len(fv) == 1 and list(fv)[0].startswith('rnd!'):
                        r2_, t2_ = tm.subst(r_, mapping), tm.subst(t_, mapping)
                        cons.append(tm.and_(tm.implies(tm.le(t_, t2_), tm.le(r_, r2_)), tm.implies(tm.le(t2_, t_), tm.le(r2_, r_))))
        apps = []
        collect_apps(R1, lambda x: x.op.startswith('uf:FT_'), apps)
        for ap in apps:
            ap2 = tm.subst(ap, mapping)
            x_, x2_ = ap.args[1], ap2.args[1]
            same_st = tm.eq(ap.args[0], ap2.args[0])
            cons.append(tm.implies(tm.and_(same_st, tm.le(x_, x2_)), tm.le(ap, ap2)))
            cons.append(tm.implies(tm.and_(same_st, tm.le(x2_, x_)), tm.le(ap2, ap)))
        base = z3.Solver()
        base.set('timeout', 60000 if deep else 20000)
        for c_ in cons:
            base.add(tm.to_z3(c_))
        found = 'any'
        t0 = time.time()
        tries = ['same'] + (['plus'] if which == 'withholding' and vsort == 'R' else []) + (['up', 'down'] if vsort in ('R', 'I') else [])
        for cand in tries:
            if not vsort:
                neg = tm.ne(k1, k2)   # non-numeric outcome (text): only the kind is compared
            elif cand == 'same':
                neg = tm.ne(v1, v2)
            elif cand == 'up':
                neg = tm.lt(v2, v1)
            elif cand == 'down':
                neg = tm.lt(v1, v2)
            else:
                neg = tm.ne(v2, tm.add(v1, dreal))
            base.push()
            base.add(tm.to_z3(neg))
            r = str(base.check())
            if r == 'sat' and os.environ.get('HV_C16_DEBUG') == n and cand == os.environ.get('HV_C16_DEBUG_CLS', 'up'):
                m_ = base.model()
                for v_ in sorted(names):
                    if v_.startswith('v:') or v_.startswith('rnd') or 'FT' in v_:
                        try:
                            print('   ', v_, tm.model_value(m_, tm.var(v_, names[v_])), '->', tm.model_value(m_, tm.var(v_ + '@2', names[v_])))
                        except Exception as e_:
                            pass
                print('   inlined', sorted(inlined))
            base.pop()
            if r == 'unsat':
                found = cand
                break
        return found, time.time() - t0
    for n in order:
        found, dt = classify(n, False)
        if found == 'any':
            found, dt2 = classify(n, True)      # cone of influence inlined (bounded)
            dt += dt2
        cls[n] = found
        res['obl'].append(('ty%d/%s/class/%s=%s' % (year, which, n, found), 'unsat' if found != 'any' else 'unknown', dt))
    res['classes'] = {n: c_ for n, c_ in cls.items() if c_ != 'same'}
    if which == 'wages':
        ok = cls.get('1040.24') in ('same', 'up')
        desc = 'total tax 1040.24 responds to higher wages as: %s' % cls.get('1040.24')
    elif which == 'deduction':
        ok = cls.get('1040.24') in ('same', 'down')
        desc = 'total tax 1040.24 responds to a higher deductible expense as: %s' % cls.get('1040.24')
    else:
        ok = cls.get('1040.33') == 'plus' and cls.get('1040.24') == 'same'
        desc = 'total payments 1040.33: %s, total tax 1040.24: %s (with the balance identity of C15, refund minus owed moves by exactly delta)' % (cls.get('1040.33'), cls.get('1040.24'))
    res['final'] = (ok, desc)
    return res


def run(tier):
    c = common.Check('C16', tier, 'relational SMT queries: (a) per-line summary invariance under swapping two copies of an input form (modular, inductive along the read graph); (b) two renamed copies of the whole-return model differing in one input (monotonicity of total tax in wages / deductions, exact response of refund-minus-owed to withholding)',
                     ['Field.value of every line that reads a numbered copy (K=2)', 'whole-return model of Form 1040 (two copies)', 'figure_tax as the rate-schedule term verified by C07'])
    years = [2023] if tier == 'quick' else [2021, 2022, 2023]
    forms = ['w-2', '1099-int', '1099-div', '1099-r', '1099-g', '1098']
    c.bounds = {'years': years, 'copies': 2, 'amounts': '0 <= x <= 1e8, whole cents', 'delta': 'any positive number of cents', 'relational_timeout_s': 120}
    c.outside = ['3 or more copies (thorough tier of the renumbering check uses K=2 as well)', 'simultaneous changes of several inputs', 'NC forms in the monotonicity queries']
    c.assumptions = ['per-payer listing lines are exempt from the renumbering invariance (name pattern)', 'induction: if every line is invariant given invariant reads, the return is invariant (read graph acyclic, C03/C04)']
    specs = [(y, 2, {'S': 2, 'ft': 'uf', 'cents': True}) for y in years] + [(y, 1, {'S': 2, 'ft': 'uf', 'cents': True, 'nonneg': True}) for y in years]
    retmodel.preload(specs)
    os.environ['HV_PRELOADED'] = '1'
    tasks = [(y, f) for y in years for f in forms]
    for r in common.pmap(sym_task, tasks):
        c.solver_s += r['solver_s']
        for nm, res, dt in r['obl']:
            c.obligation(nm, res, dt)
        c.samples.extend(r['samples'][:1])
        for v in r['viol']:
            out = common.run_real(['line_fn'], v['replay'])
            c.replays_run += 1
            if out.get('reproduced'):
                c.violation(v['key'], v['what'] + ' [real definition: %s]' % out.get('detail'), v['replay'])
            else:
                c.spurious += 1
                c.inconclusive.append('witness did not reproduce: %s (%s)' % (v['key'], out.get('detail')))
        c.extra.setdefault('lines_reading_copies', {})['%d/%s' % (r['year'], r['form'])] = r['lines']
    for r in common.pmap(modular_task, [(y, w) for y in years for w in ('wages', 'withholding', 'deduction')]):
        proved = 0
        for nm, res, dt in r['obl']:
            if res == 'unsat':
                proved += 1
            c.obligations += 1
            c.solver_s += dt
            if res == 'unsat':
                c.discharged += 1
            c.distinct.add(nm)
        ok, desc = r['final']
        nm = 'ty%d/%s/response' % (r['year'], r['which'])
        c.obligation(nm, 'unsat' if ok else 'unknown', 0.0, sample={'obligation': nm, 'result': desc, 'lines_not_unchanged': dict(list(r['classes'].items())[:25])})
        if not ok:
            c.inconclusive.append('%s: %s' % (nm, desc))
        c.extra.setdefault('response_classes', {})['%d/%s' % (r['year'], r['which'])] = {'lines_classified': proved, 'final': desc}
    return c.finish()
