"""C16: returns respond to input changes the way tax law requires.

(a) Renumbering copies: for K=2 copies of every input form, each line's
    path-exhaustive summary must be invariant under swapping instance 0 and 1
    (SMT: exists values with f_L(x) != f_L(pi x) must be unsat), except the
    per-payer listing lines; by induction along the acyclic read graph the
    whole return is then invariant.
(b) Monotonicity / exact response: relational SMT queries on two copies of the
    whole-return model that differ in one input: wages up => total tax not
    lower; a deductible expense up => not higher; withholding + d => (34 - 37)
    moves by exactly d.  Both copies must solve.  figure_tax is the schedule
    term C07 verifies.  Timeouts are reported INCONCLUSIVE.
"""
import os
import re
import time

import z3

from .. import common, retmodel, summary
from .. import terms as tm

LISTING = re.compile(r'^(1040_sb\.(1_|5_|payer|name|amount)|1040_sb\.\d+_(payer|amount)|.*_type$|.*_desc$)')


def swap_name(name, form):
    a, b = '%s:0.' % form, '%s:1.' % form
    if a in name:
        return name.replace(a, b)
    if b in name:
        return name.replace(b, a)
    return name


def relation(paths, lvar_out):
    """R(vars, out): disjunction over value paths of (conds and assumes and out == value)."""
    alts = []
    other = []
    for p in paths:
        c = tm.and_(*(list(p.conds) + list(p.assumes)))
        if p.kind == 'value':
            alts.append((c, p.value))
        else:
            other.append((c, p.kind))
    return alts, other


def sym_task(arg):
    year, form = arg
    os.environ['HV_PROCS'] = '1'
    K, S = 2, 2
    cat, summ, meta = retmodel.load_summaries(year, K, {'S': S, 'ft': 'uf', 'cents': True})
    res = {'year': year, 'form': form, 'obl': [], 'viol': [], 'samples': [], 'solver_s': 0.0, 'lines': 0}
    for n, paths in summ.items():
        if n.startswith(form + ':'):
            continue
        # only lines that mention the instances
        mentions = False
        names = {}
        for p in paths:
            for t in list(p.conds) + list(p.assumes) + ([p.value[1]] if p.value and p.value[0] in ('num', 'enum') else []):
                tm.free_vars(t, names)
        if not any(('%s:0.' % form) in v or ('%s:1.' % form) in v for v in names):
            continue
        res['lines'] += 1
        if len(paths) > 400:
            res['obl'].append(('ty%d/renumber/%s/%s (%d paths: too large)' % (year, form, n, len(paths)), 'unknown', 0.0))
            continue
        mapping = {v: tm.var(swap_name(v, form), srt) for v, srt in names.items() if swap_name(v, form) != v}
        # one relational query per line: R(x, o1) and R(pi x, o2) and o1 != o2, where
        # R(x, o) = OR_p (conds_p(x) and o == outcome_p(x)); outcome = (kind code, value)
        t0 = time.time()
        plist = [p for p in paths if p.kind not in ('cut',)]
        kinds = sorted(set(p.kind for p in plist))
        k1, k2 = tm.var('o1#kind', 'I'), tm.var('o2#kind', 'I')
        vsort = None
        for p in plist:
            if p.kind == 'value' and p.value[0] in ('num', 'enum'):
                vsort = p.value[1].sort
        compare_values = vsort is not None and not LISTING.match(n)
        if compare_values:
            v1, v2 = tm.var('o1#val', vsort), tm.var('o2#val', vsort)

        def rel(kvar, vvar, sub):
            alts = []
            for p in plist:
                c = tm.and_(*(list(p.conds) + list(p.assumes)))
                parts = [c, tm.eq(kvar, tm.I(kinds.index(p.kind)))]
                if compare_values and p.kind == 'value' and p.value[0] in ('num', 'enum') and p.value[1].sort == vsort:
                    parts.append(tm.eq(vvar, p.value[1]))
                t = tm.and_(*parts)
                alts.append(tm.subst(t, sub) if sub else t)
            return tm.or_(*alts)
        s = z3.Solver()
        s.set('timeout', 30000)
        s.add(tm.to_z3(rel(k1, v1 if compare_values else None, None)))
        # the swapped copy must not rename the output variables
        s.add(tm.to_z3(rel(k2, v2 if compare_values else None, mapping)))
        # renumbering permutes the copies that exist: both copies are present
        s.add(tm.to_z3(tm.eq(tm.var('i:1040.number_%s' % form, 'I'), tm.I(2))))
        diffs = [tm.ne(k1, k2)]
        if compare_values:
            diffs.append(tm.and_(tm.eq(k1, tm.I(kinds.index('value'))) if 'value' in kinds else tm.FALSE, tm.ne(v1, v2)))
        s.add(tm.to_z3(tm.or_(*diffs)))
        r = str(s.check())
        bad = None if r == 'unsat' else ('unknown' if r == 'unknown' else 'differs')
        dt = time.time() - t0
        res['solver_s'] += dt
        nm = 'ty%d/renumber/%s/%s' % (year, form, n)
        if LISTING.match(n):
            res['obl'].append((nm + ' (listing line, exempt)', 'unsat', 0.0))
            continue
        res['obl'].append((nm, 'unknown' if bad == 'unknown' else ('sat' if bad else 'unsat'), dt))
        if len(res['samples']) < 2:
            res['samples'].append({'obligation': nm, 'query': 'exists values: line(x) != line(x with %s:0 and %s:1 swapped)' % (form, form), 'paths': len(plist), 'result': 'sat' if bad else 'unsat'})
        if bad and bad != 'unknown':
            res['viol'].append({'key': 'ty%d:renumber:%s:%s' % (year, form, n), 'what': 'line %s changes when the two copies of %s are renumbered' % (n, form)})
    return res


def rename_all(terms_, names, suffix):
    mapping = {v: tm.var(v + suffix, srt) for v, srt in names.items()}
    return [tm.subst(t, mapping) for t in terms_], mapping


def owner_of(var):
    """line / input that a summary variable belongs to"""
    base = var
    for suf in ('#k', '#id', '#empty', '#blank'):
        if base.endswith(suf):
            base = base[:-len(suf)]
    if base.startswith('v:'):
        return ('line', base[2:])
    if base.startswith('i:'):
        return ('input', base[2:])
    return ('other', var)


def collect_apps(t, pred, acc):
    seen = set()
    st = [t]
    while st:
        x = st.pop()
        if id(x) in seen:
            continue
        seen.add(id(x))
        if pred(x):
            acc.append(x)
        for y in x.args:
            if isinstance(y, tm.T):
                st.append(y)


def modular_task(arg):
    """Assume-guarantee inference of how every line of the 1040 closure responds
    to raising one input: classes same / up / down / plus(delta), each proved by
    one relational SMT query on the line's own summary given the classes of
    what it reads (induction along the acyclic read graph)."""
    year, which = arg
    os.environ['HV_PROCS'] = '1'
    so = {'S': 2, 'ft': os.environ.get('HV_C16_FT', 'uf'), 'cents': True, 'nonneg': True}
    rm = retmodel.ReturnModel(year, 1, ['1040'], sopts=so)
    pert = {'wages': 'w-2:0.box_1', 'withholding': 'w-2:0.box_2', 'deduction': '1040_sa.state_local_real_estate_taxes'}[which]
    res = {'year': year, 'which': which, 'obl': [], 'classes': {}, 'samples': [], 'final': None}
    # topological order of the closure
    g = {n: set() for n in rm.lines}
    for n in rm.lines:
        for p in rm.summ[n]:
            for kind, name, _ in p.reads:
                if kind == 'read_line' and name in g and name != n:
                    g[n].add(name)
    order, done = [], set()

    def visit(n):
        stack = [(n, iter(sorted(g[n])))]
        while stack:
            node, it = stack[-1]
            nxt = next(it, None)
            if nxt is None:
                stack.pop()
                if node not in done:
                    done.add(node)
                    order.append(node)
            elif nxt not in done:
                stack.append((nxt, iter(sorted(g[nxt]))))
    for n in sorted(g):
        if n not in done:
            visit(n)
    cls = {}
    delta = tm.var('delta#k', 'I')          # cents
    dreal = tm.div(tm.to_real(delta), tm.R(100))

    def definition(m):
        """relation 'm has a value and it is what its definition yields'"""
        alts = []
        lv = rm.lvar[m]
        for p in rm.summ[m]:
            if p.kind != 'value':
                continue
            parts = list(p.conds) + list(p.assumes)
            if lv[0] in ('num', 'enum') and p.value[0] == lv[0]:
                parts.append(tm.eq(lv[1], p.value[1]))
            elif lv[0] == 'str' and p.value[0] == 'str':
                parts.append(tm.and_(tm.eq(lv[1], p.value[1]), tm.eq(lv[2], p.value[2])))
            alts.append(tm.and_(*parts))
        return tm.or_(*alts) if alts else tm.TRUE
    def classify(n, deep):
        paths = [p for p in rm.summ[n] if p.kind not in ('cut',)]
        kinds = sorted(set(p.kind for p in paths))
        if 'value' not in kinds:
            return 'any', 0.0
        vsort = None
        for p in paths:
            if p.kind == 'value' and p.value[0] in ('num', 'enum'):
                vsort = p.value[1].sort
        k1, k2 = tm.var('o1#kind', 'I'), tm.var('o2#kind', 'I')
        v1 = tm.var('o1#val', vsort) if vsort else None
        v2 = tm.var('o2#val', vsort) if vsort else None
        alts = []
        for p in paths:
            parts = list(p.conds) + list(p.assumes) + [tm.eq(k1, tm.I(kinds.index(p.kind)))]
            if vsort and p.kind == 'value' and p.value[0] in ('num', 'enum') and p.value[1].sort == vsort:
                parts.append(tm.eq(v1, p.value[1]))
            alts.append(tm.and_(*parts))
        R1 = tm.or_(*alts)
        # inline (two levels) the definitions of lines read whose response could not be classified:
        # their correlation with other reads is what the class abstraction loses
        inlined = set()
        frontier = [R1]
        for depth in range(14 if deep else 2):
            nv = {}
            for t_ in frontier:
                tm.free_vars(t_, nv)
            frontier = []
            for v in sorted(nv):
                kind_, owner = owner_of(v)
                if kind_ == 'line' and owner != n and owner in rm.summ and (deep or cls.get(owner, 'any') == 'any') and (deep or cls.get(owner) != 'same') and owner not in inlined and len(rm.summ[owner]) <= 40 and len(inlined) < 90:
                    inlined.add(owner)
                    d_ = definition(owner)
                    frontier.append(d_)
                    R1 = tm.and_(R1, d_)
        names = tm.free_vars(R1)
        names.pop('o1#kind', None)
        names.pop('o1#val', None)
        mapping = {v: tm.var(v + '@2', srt) for v, srt in names.items()}
        mapping['o1#kind'] = k2
        if vsort:
            mapping['o1#val'] = v2
        R2 = tm.subst(R1, mapping)
        cons = [R1, R2, tm.eq(k1, tm.I(kinds.index('value'))), tm.eq(k2, tm.I(kinds.index('value'))), tm.le(tm.I(1 if which == 'withholding' else 100), delta)]
        if which in ('wages', 'withholding'):
            cons.append(tm.eq(tm.var('i:1040.number_w-2', 'I'), tm.I(1)))
        # how the things this line reads respond
        for v, srt in names.items():
            kind, owner = owner_of(v)
            a, b2 = tm.var(v, srt), tm.var(v + '@2', srt)
            if kind == 'input':
                if owner == pert and v.endswith('#k'):
                    cons.append(tm.eq(b2, tm.add(a, delta)))
                else:
                    cons.append(tm.eq(a, b2))
            elif kind == 'line':
                c_ = cls.get(owner, 'any')
                if srt == 'B' or not v.endswith('#k') and srt != 'I':
                    if c_ == 'same':
                        cons.append(tm.eq(a, b2))
                elif c_ == 'same':
                    cons.append(tm.eq(a, b2))
                elif c_ == 'up':
                    cons.append(tm.le(a, b2))
                elif c_ == 'down':
                    cons.append(tm.le(b2, a))
                elif c_ == 'plus' and v.endswith('#k'):
                    fld = rm.cat.field(owner)
                    cons.append(tm.eq(tm.div(tm.to_real(b2), tm.R(10 ** fld._places)), tm.add(tm.div(tm.to_real(a), tm.R(10 ** fld._places)), dreal)))
        # monotone rounding and monotone tax function lemmas
        for p in paths + [q for m_ in inlined for q in rm.summ[m_]]:
            for asm in p.assumes:
                if asm.op == 'and' and len(asm.args) == 2 and asm.args[0].op == 'le' and asm.args[0].args[0].op == 'sub':
                    r_, t_ = asm.args[0].args[0].args
                    fv = tm.free_vars(r_)
                    if len(fv) == 1 and list(fv)[0].startswith('rnd!'):
                        r2_, t2_ = tm.subst(r_, mapping), tm.subst(t_, mapping)
                        cons.append(tm.and_(tm.implies(tm.le(t_, t2_), tm.le(r_, r2_)), tm.implies(tm.le(t2_, t_), tm.le(r2_, r_))))
        apps = []
        collect_apps(R1, lambda x: x.op.startswith('uf:FT_'), apps)
        for ap in apps:
            ap2 = tm.subst(ap, mapping)
            x_, x2_ = ap.args[1], ap2.args[1]
            same_st = tm.eq(ap.args[0], ap2.args[0])
            cons.append(tm.implies(tm.and_(same_st, tm.le(x_, x2_)), tm.le(ap, ap2)))
            cons.append(tm.implies(tm.and_(same_st, tm.le(x2_, x_)), tm.le(ap2, ap)))
        base = z3.Solver()
        base.set('timeout', 60000 if deep else 20000)
        for c_ in cons:
            base.add(tm.to_z3(c_))
        found = 'any'
        t0 = time.time()
        tries = ['same'] + (['plus'] if which == 'withholding' and vsort == 'R' else []) + (['up', 'down'] if vsort in ('R', 'I') else [])
        for cand in tries:
            if not vsort:
                neg = tm.ne(k1, k2)   # non-numeric outcome (text): only the kind is compared
            elif cand == 'same':
                neg = tm.ne(v1, v2)
            elif cand == 'up':
                neg = tm.lt(v2, v1)
            elif cand == 'down':
                neg = tm.lt(v1, v2)
            else:
                neg = tm.ne(v2, tm.add(v1, dreal))
            base.push()
            base.add(tm.to_z3(neg))
            r = str(base.check())
            if r == 'sat' and os.environ.get('HV_C16_DEBUG') == n and cand == os.environ.get('HV_C16_DEBUG_CLS', 'up'):
                m_ = base.model()
                for v_ in sorted(names):
                    if v_.startswith('v:') or v_.startswith('rnd') or 'FT' in v_:
                        try:
                            print('   ', v_, tm.model_value(m_, tm.var(v_, names[v_])), '->', tm.model_value(m_, tm.var(v_ + '@2', names[v_])))
                        except Exception as e_:
                            pass
                print('   inlined', sorted(inlined))
            base.pop()
            if r == 'unsat':
                found = cand
                break
        return found, time.time() - t0
    for n in order:
        found, dt = classify(n, False)
        if found == 'any':
            found, dt2 = classify(n, True)      # cone of influence inlined (bounded)
            dt += dt2
        cls[n] = found
        res['obl'].append(('ty%d/%s/class/%s=%s' % (year, which, n, found), 'unsat' if found != 'any' else 'unknown', dt))
    res['classes'] = {n: c_ for n, c_ in cls.items() if c_ != 'same'}
    if which == 'wages':
        ok = cls.get('1040.24') in ('same', 'up')
        desc = 'total tax 1040.24 responds to higher wages as: %s' % cls.get('1040.24')
    elif which == 'deduction':
        ok = cls.get('1040.24') in ('same', 'down')
        desc = 'total tax 1040.24 responds to a higher deductible expense as: %s' % cls.get('1040.24')
    else:
        ok = cls.get('1040.33') == 'plus' and cls.get('1040.24') == 'same'
        desc = 'total payments 1040.33: %s, total tax 1040.24: %s (with the balance identity of C15, refund minus owed moves by exactly delta)' % (cls.get('1040.33'), cls.get('1040.24'))
    res['final'] = (ok, desc)
    return res


def run(tier):
    c = common.Check('C16', tier, 'relational SMT queries: (a) per-line summary invariance under swapping two copies of an input form (modular, inductive along the read graph); (b) two renamed copies of the whole-return model differing in one input (monotonicity of total tax in wages / deductions, exact response of refund-minus-owed to withholding)',
                     ['Field.value of every line that reads a numbered copy (K=2)', 'whole-return model of Form 1040 (two copies)', 'figure_tax as the rate-schedule term verified by C07'])
    years = [2023] if tier == 'quick' else [2021, 2022, 2023]
    forms = ['w-2', '1099-int', '1099-div', '1099-r', '1099-g', '1098']
    c.bounds = {'years': years, 'copies': 2, 'amounts': '0 <= x <= 1e8, whole cents', 'delta': 'any positive number of cents', 'relational_timeout_s': 120}
    c.outside = ['3 or more copies (thorough tier of the renumbering check uses K=2 as well)', 'simultaneous changes of several inputs', 'NC forms in the monotonicity queries']
    c.assumptions = ['per-payer listing lines are exempt from the renumbering invariance (name pattern)', 'induction: if every line is invariant given invariant reads, the return is invariant (read graph acyclic, C03/C04)']
    specs = [(y, 2, {'S': 2, 'ft': 'uf', 'cents': True}) for y in years] + [(y, 1, {'S': 2, 'ft': 'uf', 'cents': True, 'nonneg': True}) for y in years]
    retmodel.preload(specs)
    os.environ['HV_PRELOADED'] = '1'
    tasks = [(y, f) for y in years for f in forms]
    for r in common.pmap(sym_task, tasks):
        c.solver_s += r['solver_s']
        for nm, res, dt in r['obl']:
            c.obligation(nm, res, dt)
        c.samples.extend(r['samples'][:1])
        for v in r['viol']:
            c.violation(v['key'], v['what'], {'kind': 'renumber', 'detail': v['what']})
        c.extra.setdefault('lines_reading_copies', {})['%d/%s' % (r['year'], r['form'])] = r['lines']
    for r in common.pmap(modular_task, [(y, w) for y in years for w in ('wages', 'withholding', 'deduction')]):
        proved = 0
        for nm, res, dt in r['obl']:
            if res == 'unsat':
                proved += 1
            c.obligations += 1
            c.solver_s += dt
            if res == 'unsat':
                c.discharged += 1
            c.distinct.add(nm)
        ok, desc = r['final']
        nm = 'ty%d/%s/response' % (r['year'], r['which'])
        c.obligation(nm, 'unsat' if ok else 'unknown', 0.0, sample={'obligation': nm, 'result': desc, 'lines_not_unchanged': dict(list(r['classes'].items())[:25])})
        if not ok:
            c.inconclusive.append('%s: %s' % (nm, desc))
        c.extra.setdefault('response_classes', {})['%d/%s' % (r['year'], r['which'])] = {'lines_classified': proved, 'final': desc}
    return c.finish()
