"""Bounded symbolic strings (DESIGN.md 3.4): code points c[0..L-1] (Int, ASCII
0..127) and a length n <= L.  Every str method the habutax input / field layer
uses is defined with ITEs over the bounded array; the C-level parsers float()
and int() and the two shipped regular expressions run as symbolic DFAs (their
grammar is the stub contract; validated against the real functions on a corpus
in hv.selftest).
"""
from fractions import Fraction

from . import symx, rt
from . import terms as tm
from .terms import I, B

WS = (32, 9, 10, 11, 12, 13, 28, 29, 30, 31)     # str.isspace() for ASCII (also what float()/int()/strip() skip)


def _or(*xs):
    return tm.or_(*xs)


def _and(*xs):
    return tm.and_(*xs)


def is_ws(c):
    return _or(*[tm.eq(c, I(w)) for w in WS])


WS_NUM = (32, 9, 10, 11, 12, 13)      # what float()/int() skip around a number (not \x1c-\x1f)


def is_ws_num(c):
    return _or(*[tm.eq(c, I(w)) for w in WS_NUM])


def is_digit(c):
    return _and(tm.le(I(48), c), tm.le(c, I(57)))


def in_range(c, lo, hi):
    return _and(tm.le(I(lo), c), tm.le(c, I(hi)))


class BStr(object):
    __hv_proxy__ = True
    pytype = str

    def __init__(self, chars, n):
        self.chars = list(chars)
        self.n = n
        self.L = len(self.chars)

    # ---- construction
    @staticmethod
    def fresh(name, L, ex=None, printable=False):
        ex = ex or symx.cur()
        n = tm.var(name + '#len', 'I')
        cs = [tm.var('%s#c%d' % (name, k), 'I') for k in range(L)]
        ex.assume(_and(tm.le(I(0), n), tm.le(n, I(L))))
        lo, hi = (32, 126) if printable else (0, 127)
        for c in cs:
            ex.assume(_and(tm.le(I(lo), c), tm.le(c, I(hi))))
        return BStr(cs, n)

    @staticmethod
    def of(s, L=None):
        if isinstance(s, BStr):
            return s
        L = max(len(s), L or 0)
        return BStr([I(ord(ch)) for ch in s] + [I(0)] * (L - len(s)), I(len(s)))

    def concrete(self):
        if self.n.is_const() and all(c.is_const() for c in self.chars[:self.n.val]):
            return ''.join(chr(c.val) for c in self.chars[:self.n.val])
        return None

    def at(self, idx):
        """char at symbolic index (Int term); 0 when out of range"""
        if idx.is_const():
            return self.chars[idx.val] if 0 <= idx.val < self.L else I(0)
        r = I(0)
        for k in reversed(range(self.L)):
            r = tm.ite(tm.eq(idx, I(k)), self.chars[k], r)
        return r

    # ---- str API
    def strip(self, chars=None):
        if chars is not None:
            raise symx.Unsupported('strip(chars)')
        L = self.L
        # number of leading whitespace characters
        lead = I(0)
        still = B(True)
        for k in range(L):
            cond = _and(still, tm.lt(I(k), self.n), is_ws(self.chars[k]))
            lead = tm.ite(cond, I(k + 1), lead)
            still = cond
        # trailing: scan from the end
        trail = I(0)
        for t in range(1, L + 1):
            # the last t characters are all whitespace
            conds = [tm.le(I(t), self.n)]
            for j in range(1, t + 1):
                conds.append(is_ws(self.at(tm.sub(self.n, I(j)))))
            trail = tm.ite(_and(*conds), I(t), trail)
        newn = tm.max_(I(0), tm.sub(tm.sub(self.n, lead), trail))
        out = []
        for j in range(L):
            out.append(self.at(tm.add(I(j), lead)))
        return BStr(out, newn)

    def lower(self):
        return BStr([tm.ite(in_range(c, 65, 90), tm.add(c, I(32)), c) for c in self.chars], self.n)

    def upper(self):
        return BStr([tm.ite(in_range(c, 97, 122), tm.sub(c, I(32)), c) for c in self.chars], self.n)

    def replace(self, old, new, *rest):
        if not rest and isinstance(old, str) and isinstance(new, str) and len(old) == 1 and new != '':
            # general single-character replacement: concrete length, fork per character
            a = self.fix_len()
            ex = symx.cur()
            out = []
            for k in range(a.n.val):
                if ex.decide(tm.eq(a.chars[k], I(ord(old)))):
                    out.extend(I(ord(ch)) for ch in new)
                else:
                    out.append(a.chars[k])
            return BStr(out or [I(0)], I(len(out)))
        if rest or not isinstance(old, str) or not isinstance(new, str) or len(old) != 1 or new != '':
            raise symx.Unsupported('replace(%r, %r)' % (old, new))
        o = ord(old)
        L = self.L
        keep = [_and(tm.lt(I(k), self.n), tm.ne(self.chars[k], I(o))) for k in range(L)]
        # prefix counts of kept characters
        pref = [I(0)]
        for k in range(L):
            pref.append(tm.add(pref[-1], tm.ite(keep[k], I(1), I(0))))
        out = []
        for j in range(L):
            r = I(0)
            for k in reversed(range(L)):
                r = tm.ite(_and(keep[k], tm.eq(pref[k], I(j))), self.chars[k], r)
            out.append(r)
        return BStr(out, pref[L])

    def _eq_term(self, o):
        if isinstance(o, str):
            if len(o) > self.L:
                return tm.FALSE
            return _and(tm.eq(self.n, I(len(o))), *[tm.eq(self.chars[k], I(ord(ch))) for k, ch in enumerate(o)])
        if isinstance(o, BStr):
            L = max(self.L, o.L)
            cs = [tm.eq(self.n, o.n)]
            for k in range(L):
                a = self.chars[k] if k < self.L else I(0)
                b = o.chars[k] if k < o.L else I(0)
                cs.append(tm.implies(tm.lt(I(k), self.n), tm.eq(a, b)))
            return _and(*cs)
        return tm.FALSE

    def __eq__(self, o):
        return symx.wrap(self._eq_term(o), bool)

    def __ne__(self, o):
        return symx.wrap(tm.not_(self._eq_term(o)), bool)

    def __hash__(self):
        return id(self)

    def __bool__(self):
        return symx.cur().decide(tm.lt(I(0), self.n))

    def __iter__(self):
        n = symx.cur().concretize(self.n)
        for k in range(n):
            yield BStr([self.chars[k]], I(1))

    def __getitem__(self, k):
        if isinstance(k, slice):
            if k.step not in (None, 1):
                raise symx.Unsupported('slice step')
            n = symx.cur().concretize(self.n)
            idx = range(n)[k]
            return BStr([self.chars[j] for j in idx] or [I(0)], I(len(idx)))
        n = symx.cur().concretize(self.n)
        if not -n <= k < n:
            raise IndexError('string index out of range')
        return BStr([self.chars[k % n]], I(1))

    def __add__(self, o):
        if isinstance(o, (str, BStr)):
            a = self.fix_len()
            b = BStr.of(o).fix_len()
            return BStr(a.chars[:a.n.val] + b.chars[:b.n.val] or [I(0)], I(a.n.val + b.n.val))
        return NotImplemented

    def __radd__(self, o):
        if isinstance(o, str):
            return BStr.of(o).__add__(self)
        return NotImplemented

    def fix_len(self):
        n = symx.cur().concretize(self.n)
        return BStr(self.chars[:n] or [I(0)], I(n))

    def startswith(self, p):
        if not isinstance(p, str):
            raise symx.Unsupported('startswith')
        if len(p) > self.L:
            return False
        return symx.wrap(_and(tm.le(I(len(p)), self.n), *[tm.eq(self.chars[k], I(ord(ch))) for k, ch in enumerate(p)]), bool)

    def isdigit(self):
        return symx.wrap(_and(tm.lt(I(0), self.n), *[tm.implies(tm.lt(I(k), self.n), is_digit(self.chars[k])) for k in range(self.L)]), bool)

    def __repr__(self):
        c = self.concrete()
        return '<BStr %r>' % c if c is not None else '<BStr L=%d>' % self.L

    # ---- hv.rt hooks ---------------------------------------------------
    @staticmethod
    def __hv_len__(self):
        return symx.wrap(self.n, int)

    @staticmethod
    def __hv_type__(self):
        return str

    @staticmethod
    def __hv_str__(self):
        return self

    @staticmethod
    def __hv_is__(self, other):
        return False

    @staticmethod
    def __hv_format__(self, conv, spec):
        c = self.concrete()
        return c if c is not None else '<symbolic text>'

    @staticmethod
    def __hv_contains__(self, x):
        raise symx.Unsupported('substring test on BStr')

    @staticmethod
    def __hv_int__(self, *a):
        if a:
            raise symx.Unsupported('int(s, base)')
        return parse_int(self)

    @staticmethod
    def __hv_float__(self):
        return parse_float(self)

    # model extraction
    def model_text(self, model):
        n = tm.model_value(model, self.n)
        return ''.join(chr(tm.model_value(model, c)) for c in self.chars[:n])


# ---------------------------------------------------------------------------
# symbolic DFAs
# ---------------------------------------------------------------------------
def run_dfa(s, n_states, start, trans, dead):
    """trans(state_const, char_term) -> list of (cond, next_state_const); runs
    over the string and returns the final state term."""
    st = I(start)
    for k in range(s.L):
        c = s.chars[k]
        nxt = I(dead)
        for q in range(n_states):
            if q == dead:
                continue
            tq = I(dead)
            for cond, q2 in reversed(trans(q, c)):
                tq = tm.ite(cond, I(q2), tq)
            nxt = tm.ite(tm.eq(st, I(q)), tq, nxt)
        st = tm.ite(tm.lt(I(k), s.n), nxt, st)
    return st


# ---- int(): [ws] [+-] digit (_? digit)* [ws]
def parse_int(s):
    S0, SIGN, DIG, US, TWS, DEAD = 0, 1, 2, 3, 4, 5

    def trans(q, c):
        if q == S0:
            return [(is_ws_num(c), S0), (_or(tm.eq(c, I(43)), tm.eq(c, I(45))), SIGN), (is_digit(c), DIG)]
        if q == SIGN:
            return [(is_digit(c), DIG)]
        if q == DIG:
            return [(is_digit(c), DIG), (tm.eq(c, I(95)), US), (is_ws_num(c), TWS)]
        if q == US:
            return [(is_digit(c), DIG)]
        if q == TWS:
            return [(is_ws_num(c), TWS)]
        return []
    final = run_dfa(s, 6, S0, trans, DEAD)
    ok = _or(tm.eq(final, I(DIG)), tm.eq(final, I(TWS)))
    if not symx.cur().decide(ok):
        raise ValueError('invalid literal for int() with base 10')
    # value by Horner over the digit characters
    val = I(0)
    neg = tm.FALSE
    for k in range(s.L):
        c = s.chars[k]
        active = tm.lt(I(k), s.n)
        val = tm.ite(_and(active, is_digit(c)), tm.add(tm.mul(val, I(10)), tm.sub(c, I(48))), val)
        neg = tm.or_(neg, _and(active, tm.eq(c, I(45))))
    return symx.wrap(tm.ite(neg, tm.neg(val), val), int)


class SymFloatP(symx.SymFloat):
    """float() result: value term + whether it is finite / nan."""
    __slots__ = ('finite', 'isnan')


# ---- float(): [ws] [+-] ( digits[.[digits]] | .digits ) [ (e|E)[+-]digits ] | [+-](inf|infinity|nan) [ws]
def parse_float(s):
    (S0, SIGN, INT, IUS, DOT0, FRAC, FUS, DOTI, E0, ESIGN, EXP, EUS, TWS,
     I1, I2, I3, I4, I5, I6, I7, I8, N1, N2, N3, DEAD) = range(25)

    def ch(c, *letters):
        return _or(*[tm.eq(c, I(ord(x))) for x in letters])

    def trans(q, c):
        sign = _or(tm.eq(c, I(43)), tm.eq(c, I(45)))
        e = ch(c, 'e', 'E')
        if q == S0:
            return [(is_ws_num(c), S0), (sign, SIGN), (is_digit(c), INT), (tm.eq(c, I(46)), DOT0), (ch(c, 'i', 'I'), I1), (ch(c, 'n', 'N'), N1)]
        if q == SIGN:
            return [(is_digit(c), INT), (tm.eq(c, I(46)), DOT0), (ch(c, 'i', 'I'), I1), (ch(c, 'n', 'N'), N1)]
        if q == INT:
            return [(is_digit(c), INT), (tm.eq(c, I(95)), IUS), (tm.eq(c, I(46)), DOTI), (e, E0), (is_ws_num(c), TWS)]
        if q == IUS:
            return [(is_digit(c), INT)]
        if q == DOT0:      # '.' with no integer part: needs a digit
            return [(is_digit(c), FRAC)]
        if q == DOTI:      # 'ddd.' : fraction optional
            return [(is_digit(c), FRAC), (e, E0), (is_ws_num(c), TWS)]
        if q == FRAC:
            return [(is_digit(c), FRAC), (tm.eq(c, I(95)), FUS), (e, E0), (is_ws_num(c), TWS)]
        if q == FUS:
            return [(is_digit(c), FRAC)]
        if q == E0:
            return [(sign, ESIGN), (is_digit(c), EXP)]
        if q == ESIGN:
            return [(is_digit(c), EXP)]
        if q == EXP:
            return [(is_digit(c), EXP), (tm.eq(c, I(95)), EUS), (is_ws_num(c), TWS)]
        if q == EUS:
            return [(is_digit(c), EXP)]
        if q == TWS:
            return [(is_ws_num(c), TWS)]
        # inf / infinity
        if q == I1:
            return [(ch(c, 'n', 'N'), I2)]
        if q == I2:
            return [(ch(c, 'f', 'F'), I3)]
        if q == I3:
            return [(ch(c, 'i', 'I'), I4), (is_ws_num(c), TWS + 100)]
        if q == I4:
            return [(ch(c, 'n', 'N'), I5)]
        if q == I5:
            return [(ch(c, 'i', 'I'), I6)]
        if q == I6:
            return [(ch(c, 't', 'T'), I7)]
        if q == I7:
            return [(ch(c, 'y', 'Y'), I8)]
        if q == I8:
            return [(is_ws_num(c), TWS + 100)]
        if q == N1:
            return [(ch(c, 'a', 'A'), N2)]
        if q == N2:
            return [(ch(c, 'n', 'N'), N3)]
        if q == N3:
            return [(is_ws_num(c), TWS + 200)]
        return []
    # trailing-whitespace states remember what was parsed: expand them
    TW_INF, TW_NAN = 25, 26
    n_states = 27

    def trans2(q, c):
        if q == TW_INF:
            return [(is_ws_num(c), TW_INF)]
        if q == TW_NAN:
            return [(is_ws_num(c), TW_NAN)]
        out = []
        for cond, q2 in trans(q, c):
            if q2 == TWS + 100:
                q2 = TW_INF
            elif q2 == TWS + 200:
                q2 = TW_NAN
            out.append((cond, q2))
        return out
    final = run_dfa(s, n_states, S0, trans2, DEAD)
    fin_num = _or(*[tm.eq(final, I(q)) for q in (INT, DOTI, FRAC, EXP, TWS)])
    fin_inf = _or(*[tm.eq(final, I(q)) for q in (I3, I8, TW_INF)])
    fin_nan = _or(*[tm.eq(final, I(q)) for q in (N3, TW_NAN)])
    ok = _or(fin_num, fin_inf, fin_nan)
    if not symx.cur().decide(ok):
        raise ValueError('could not convert string to float')
    # magnitude: mantissa digits, fraction digit count, exponent
    mant = I(0)
    fd = I(0)
    ex = I(0)
    exneg = tm.FALSE
    neg = tm.FALSE
    seen_dot = tm.FALSE
    seen_e = tm.FALSE
    first = tm.TRUE
    for k in range(s.L):
        c = s.chars[k]
        active = tm.lt(I(k), s.n)
        dig = _and(active, is_digit(c))
        mant = tm.ite(_and(dig, tm.not_(seen_e)), tm.add(tm.mul(mant, I(10)), tm.sub(c, I(48))), mant)
        fd = tm.ite(_and(dig, seen_dot, tm.not_(seen_e)), tm.add(fd, I(1)), fd)
        ex = tm.ite(_and(dig, seen_e), tm.add(tm.mul(ex, I(10)), tm.sub(c, I(48))), ex)
        exneg = tm.or_(exneg, _and(active, seen_e, tm.eq(c, I(45))))
        neg = tm.or_(neg, _and(active, tm.not_(seen_e), tm.eq(c, I(45))))
        seen_dot = tm.or_(seen_dot, _and(active, tm.eq(c, I(46))))
        seen_e = tm.or_(seen_e, _and(active, _or(tm.eq(c, I(101)), tm.eq(c, I(69))), fin_num))
    e10 = tm.sub(tm.ite(exneg, tm.neg(ex), ex), fd)
    # overflow to inf: mant * 10^e10 >= 2^1024 (approx. 1.797693134862315e308); with L <= 12
    # characters mant < 1e12, so e10 >= 309 always overflows (mant>=1) and e10 <= 296 never does
    overflow = _and(fin_num, tm.lt(I(0), mant), _or(tm.le(I(309), e10), *[
        _and(tm.eq(e10, I(e)), tm.le(I(-(-17976931348623158 * 10 ** 292 // 10 ** e)), mant)) for e in range(297, 309)]))
    finite = _and(fin_num, tm.not_(overflow))
    # exact value for the common case (no exponent): mant / 10^fd
    scale = tm.R(1)
    for k in range(1, s.L + 1):
        scale = tm.ite(tm.eq(fd, I(k)), tm.R(10 ** k), scale)
    has_exp = seen_e
    mag = tm.div(tm.to_real(mant), scale)
    val = tm.ite(neg, tm.neg(mag), mag)
    r = SymFloatP(tm.ite(has_exp, tm.uf('float_exp', (tm.to_real(mant), tm.to_real(e10)), 'R'), val))
    r.finite = finite
    r.isnan = fin_nan
    return r


def isfinite(x):
    if isinstance(x, SymFloatP):
        return symx.wrap(x.finite, bool)
    if isinstance(x, symx.Sym):
        return True
    import math
    return math.isfinite(x)


def isnan(x):
    if isinstance(x, SymFloatP):
        return symx.wrap(x.isnan, bool)
    if isinstance(x, symx.Sym):
        return False
    import math
    return math.isnan(x)


# ---- the two shipped regular expressions ---------------------------------
def regex_match(pattern, s):
    """Symbolic re.compile(pattern).match(s) for the patterns habutax ships."""
    if pattern == '^(0[1-9]|1[0-2]|2[1-9]|3[0-2])[0-9]{7}$':
        c = s.chars + [I(0)] * max(0, 9 - s.L)
        d0, d1 = c[0], c[1]
        pre = _or(_and(tm.eq(d0, I(48)), in_range(d1, 49, 57)), _and(tm.eq(d0, I(49)), in_range(d1, 48, 50)),
                  _and(tm.eq(d0, I(50)), in_range(d1, 49, 57)), _and(tm.eq(d0, I(51)), in_range(d1, 48, 50)))
        body = _and(*[is_digit(c[k]) for k in range(2, 9)])
        # '$' also matches before a trailing newline
        return _or(_and(tm.eq(s.n, I(9)), pre, body), _and(tm.eq(s.n, I(10)), pre, body, tm.eq(s.at(I(9)), I(10))))
    if pattern == '^[0-9A-Za-z\\-]{1,17}$':
        def okc(ch):
            return _or(is_digit(ch), in_range(ch, 65, 90), in_range(ch, 97, 122), tm.eq(ch, I(45)))
        plain = _and(tm.le(I(1), s.n), tm.le(s.n, I(17)), *[tm.implies(tm.lt(I(k), s.n), okc(s.chars[k])) for k in range(s.L)])
        nl = _and(tm.le(I(2), s.n), tm.le(s.n, I(18)), tm.eq(s.at(tm.sub(s.n, I(1))), I(10)),
                  *[tm.implies(tm.lt(I(k), tm.sub(s.n, I(1))), okc(s.chars[k])) for k in range(s.L)])
        return _or(plain, nl)
    raise symx.Unsupported('regex %r' % pattern)


class RegexStub(object):
    """Stands in for a compiled pattern when the subject is a BStr."""

    def __init__(self, pattern, real):
        self.pattern = pattern
        self.real = real

    def match(self, s):
        if isinstance(s, BStr):
            return symx.wrap(regex_match(self.pattern, s), bool)
        return self.real.match(s)


# ---- Enum[name] with a symbolic name ----------------------------------------
def enum_lookup(cls, s):
    ex = symx.cur()
    for m in cls:
        if ex.decide(s._eq_term(m.name)):
            return m
    raise KeyError(s)


# ---- rendering numbers (C14): str(int), f'{x:.Nf}' ---------------------------
def _digits_str(a, nd):
    """nd decimal digits (most significant first) of the non-negative Int term a"""
    # quotient chain (q_{j+1} = q_j div 10, d_j = q_j mod 10): every step is linear
    # for the solver, unlike div by 10^j
    ds = []
    q = a
    for j in range(nd):
        ds.append(tm.add(I(48), tm.imod(q, I(10))))
        q = tm.idiv(q, I(10))
    return list(reversed(ds))


def render_int(t, max_digits=6):
    """str(n) for a symbolic Int |n| < 10^max_digits: forks on sign and on the
    number of digits, the digit characters stay symbolic."""
    ex = symx.cur()
    neg = ex.decide(tm.lt(t, I(0)))
    a = tm.neg(t) if neg else t
    nd = None
    for k in range(1, max_digits + 1):
        if ex.decide(tm.lt(a, I(10 ** k))):
            nd = k
            break
    if nd is None:
        raise symx.PathCut('render_int: more than %d digits' % max_digits)
    chars = ([I(45)] if neg else []) + _digits_str(a, nd)
    return BStr(chars, I(len(chars)))


def render_fixed(x, places, max_digits=6):
    """f'{x:.{places}f}' for a symbolic float that lies on the 10^-places grid
    (x = k / 10^places): exact decimal rendering."""
    ex = symx.cur()
    xt = symx._lift(x)[0]
    # the formatted number is x rounded to `places` decimals: any integer k with
    # |k - x*10^places| <= 1/2 + eps (exactly x*10^places when x is on that grid)
    k = tm.var(ex.fresh_name('fixk', xt, places), 'I')
    scaled = tm.mul(tm.to_real(xt) if xt.sort != 'R' else xt, tm.R(10 ** places))
    band = tm.R(Fraction(1, 2) + symx.EPS)
    ex.assume(tm.and_(tm.le(tm.sub(tm.to_real(k), scaled), band), tm.le(tm.sub(scaled, tm.to_real(k)), band)))
    neg = ex.decide(tm.lt(k, I(0)))
    a = tm.neg(k) if neg else k
    ip = tm.idiv(a, I(10 ** places))
    fp = tm.imod(a, I(10 ** places))
    nd = None
    for d in range(1, max_digits + 1):
        if ex.decide(tm.lt(ip, I(10 ** d))):
            nd = d
            break
    if nd is None:
        raise symx.PathCut('render_fixed: more than %d integer digits' % max_digits)
    chars = ([I(45)] if neg else []) + _digits_str(ip, nd)
    if places > 0:
        chars = chars + [I(46)] + _digits_str(fp, places)
    return BStr(chars, I(len(chars)))


def format_number(v, spec):
    """hook for hv.rt.fstr: '.Nf' formats of symbolic numbers"""
    import re
    m = re.match(r'^\.(\d+)f$', spec or '')
    if m:
        return render_fixed(v, int(m.group(1)))
    if spec == '' and isinstance(v, symx.SymInt):
        return render_int(v.term)
    raise symx.Unsupported('format spec %r' % spec)
