"""The solver algorithm as the unit (DESIGN.md 3.8): the real Solver,
DependencyTracker, ValueStore, FormAccessor and InputStore run on a generated
Form whose line definitions are a nondeterministic oracle.

* which action a line takes at each node of its decision tree is an SMT choice
  made lazily the first time the node is visited (so all generated programs
  within the bound are enumerated, grouped by behaviour);
* values are uninterpreted-function terms (EUF): "same value" is decided by
  the solver;
* presence of each input, each prompt answer/refusal and the attempt order
  (ranks substituted for habutax.solver.sort_keys) are symbolic.
"""
import importlib

from . import instrument, symx, rt
from . import terms as tm

instrument.install()

hab_solver = importlib.import_module('habutax.solver')
hab_form = importlib.import_module('habutax.form')
hab_fields = importlib.import_module('habutax.fields')
hab_inputs = importlib.import_module('habutax.inputs')
hab_values = importlib.import_module('habutax.values')


MISSING = object()


class Tok(object):
    """The text of an input value as the store holds it: opaque, non-blank,
    valid for IntegerInput; int(tok) is the uninterpreted value inval(j)."""
    __hv_proxy__ = True

    def __init__(self, name):
        self.name = name

    def strip(self, *a):
        return self

    @staticmethod
    def __hv_len__(self):
        return 3

    @staticmethod
    def __hv_int__(self, *a):
        return symx.SymInt(tm.uf('inval_' + self.name.replace('.', '_').replace(':', '_').replace('-', '_'), (), 'I'))

    @staticmethod
    def __hv_type__(self):
        return str

    def __repr__(self):
        return '<Tok %s>' % self.name


class StubConfig(object):
    """Stand-in for the configparser.ConfigParser behind InputStore.  What the
    *file held initially* is symbolic (presence bits, [DEFAULT] bits, opaque
    value tokens); everything the code writes goes into a real ConfigParser
    (so any ConfigParser API the code uses for writing behaves as the real
    one), and reads look there first."""

    def __init__(self, world, preset=None):
        import configparser
        self.world = world
        self.real = configparser.ConfigParser(interpolation=None)
        self.tokens = {}
        for name, value in (preset or {}).items():
            sec, key = name.split('.', 1)
            if not self.real.has_section(sec):
                self.real.add_section(sec)
            self._store(sec, key, value)

    def _store(self, section, key, value):
        # tokens are opaque objects: keep them aside, store a marker text
        name = '%s.%s' % (section, key)
        if isinstance(value, str):
            self.real.set(section, key, value)
            self.tokens.pop(name, None)
        else:
            self.real.set(section, key, '<token>')
            self.tokens[name] = value

    def _present(self, name):
        return tm.var('present:' + name, 'B')

    def _section_exists(self, section):
        if self.real.has_section(section):
            return tm.TRUE
        keys = [n for n in self.world.all_input_names if n.split('.')[0] == section]
        return tm.or_(*[self._present(n) for n in keys]) if keys else tm.FALSE

    def has_option(self, section, key):
        name = '%s.%s' % (section, key)
        if self.real.has_section(section) and key in self.real._sections[section]:
            return True
        t = self._present(name)
        if self.world.defaults:
            t = tm.or_(t, tm.and_(self._section_exists(section), tm.var('default:' + name, 'B')))
        return symx.wrap(t, bool)

    def get(self, section, key):
        name = '%s.%s' % (section, key)
        if self.real.has_section(section) and key in self.real._sections[section]:
            return self.tokens.get(name, self.real.get(section, key)) if name in self.tokens else self.real.get(section, key)
        if self.world.defaults and not symx.cur().decide(self._present(name)):
            return Tok('DEFAULT.' + key)
        return Tok(name)

    def sections(self):
        out = list(self.real.sections())
        if not self.world.defaults:
            return out          # whether the section already exists is immaterial without [DEFAULT]
        for sec in sorted(set(n.split('.')[0] for n in self.world.all_input_names)):
            if sec not in out and symx.cur().decide(self._section_exists(sec)):
                out.append(sec)
        return out

    def add_section(self, section):
        if not self.real.has_section(section):
            self.real.add_section(section)

    def set(self, section, key, value):
        name = '%s.%s' % (section, key)
        self.world.log.append(('store_set', name))
        if not self.real.has_section(section):
            # configparser raises NoSectionError here; the file-provided section may exist symbolically
            if self.world.defaults and not symx.cur().decide(self._section_exists(section)):
                import configparser
                raise configparser.NoSectionError(section)
            self.real.add_section(section)
        self._store(section, key, value)

    @property
    def set_values(self):
        out = {}
        for sec in self.real.sections():
            for key in self.real._sections[sec]:
                name = '%s.%s' % (sec, key)
                out[name] = self.tokens.get(name, self.real.get(sec, key))
        return out

    def __getattr__(self, name):
        # any other ConfigParser API: the real object (concrete part of the store)
        if name in ('real', 'world', 'tokens'):
            raise AttributeError(name)
        return getattr(self.real, name)


class World(object):
    """Shared, lazily discovered environment of one explored path: the program
    (action per node), memoised so re-attempts and repeated solves see the same
    deterministic line definitions."""

    def __init__(self, nlines, ninputs, depth, second_form=True, instanced=False, allow_abort_targets=True, two_copies=False):
        self.N = nlines
        self.M = ninputs
        self.D = depth
        self.second_form = second_form
        self.instanced = instanced
        self.two_copies = bool(instanced and two_copies)
        self.allow_abort_targets = allow_abort_targets
        self.input_modes = False
        self.mode_granularity = 'program'
        self.n_modes = 3
        self.n_answers = 3
        self.order = 'symbolic'
        self.defaults = False
        self.choices = {}
        self.log = []
        self.targets = []
        for k in range(nlines):
            self.targets.append('fa.l%d' % k)
        if second_form:
            inst = ':0' if instanced else ''
            self.targets.append('fb%s.r0' % inst)      # required line of the other form
            self.targets.append('fb%s.o0' % inst)      # optional line of the other form
            if self.two_copies:
                self.targets.append('fb:1.r0')         # a second numbered copy of the same form
        if allow_abort_targets:
            self.targets.append('nope.x')              # unsupported form -> NotImplementedError
            self.targets.append('fa.zz')               # unknown line of a known form -> the solver's assertion
        self.input_names = ['fa.i%d' % j for j in range(ninputs)]
        if second_form:
            self.input_names.append('fb%s.j0' % (':0' if instanced else ''))
        # every input a run can touch (the second numbered copy has its own input, reached through a relative name)
        self.all_input_names = list(self.input_names) + (['fb:1.j0'] if (second_form and self.two_copies) else [])
        # actions: 0 RETURN, 1 NOT_IMPLEMENTED, 2.. read input j, then read line t
        self.n_actions = 2 + len(self.input_names) + len(self.targets)

    def mode_key(self, kind, line_name, node):
        """granularity of the lookup-mode choice (a bound on the program space)"""
        if self.mode_granularity == 'program':
            return ('mode', kind)
        if self.mode_granularity == 'line':
            return ('mode', kind, line_name)
        return ('mode', kind, line_name, node)

    def choose(self, key, n):
        """SMT choice in [0, n) made lazily and memoised by node."""
        v = self.choices.get(key)
        if v is None:
            t = tm.var('act:%s' % (key,), 'I')
            ex = symx.cur()
            ex.assume(tm.and_(tm.le(tm.I(0), t), tm.lt(t, tm.I(n))))
            v = ex.concretize(t)
            self.choices[key] = v
        return v

    def describe(self):
        out = {}
        for key, a in sorted(self.choices.items(), key=lambda kv: str(kv[0])):
            out[str(key)] = self.action_name(a) if key[0] == 'act' else ['getitem', 'get(default)', 'contains'][a]
        return out

    def action_name(self, a):
        if a == 0:
            return 'return'
        if a == 1:
            return 'not_implemented'
        a -= 2
        if a < len(self.input_names):
            return 'read_input ' + self.input_names[a]
        return 'read_line ' + self.targets[a - len(self.input_names)]


def make_value_fn(world, line_name):
    """The one value function all generated lines share: walks the line's
    decision tree."""

    own_form = line_name.split('.')[0]

    def rel(name):
        """Lines and inputs of the line's own form are looked up by their *relative* name, as the
        shipped forms do: which line that is depends on the accessor the solver hands in.  A line
        of a numbered copy reads its own copy's lines/inputs this way."""
        f, base = name.split('.', 1)
        if f == own_form:
            return base, name
        if world.instanced and own_form == 'fb:1' and name == 'fb:0.j0':
            return base, own_form + '.' + base      # the second copy reads its *own* input
        return name, name

    def value_fn(self, i, v):
        node = ()
        reads = []
        for step in range(world.D + 1):
            a = world.choose(('act', line_name, node), world.n_actions if step < world.D else 2)
            world.log.append(('step', line_name, node, a))
            if a == 0:
                break
            if a == 1:
                self.not_implemented()
            a -= 2
            if a < len(world.input_names):
                lname, name = rel(world.input_names[a])
                mode = world.choose(world.mode_key('i', line_name, node), 3) if world.input_modes else 0
                if mode == 0:
                    val = i[lname]
                elif mode == 1:
                    val = i.get(lname, MISSING)
                else:
                    val = 1 if lname in i else 0
                world.log.append(('read_input_ok', line_name, name))
            else:
                lname, name = rel(world.targets[a - len(world.input_names)])
                # how the definition looks the line up: v[name], v.get(name, default)
                # or `name in v` -- all three must abort the attempt while the
                # line has no value yet
                mode = world.choose(world.mode_key('v', line_name, node), world.n_modes)
                if mode == 0:
                    val = v[lname]
                elif mode == 1:
                    val = v.get(lname, MISSING)
                else:
                    val = 1 if lname in v else 0
                world.log.append(('read_line_ok', line_name, name))
            if val is MISSING:
                val = -1
            reads.append(val)
            # branch on an uninterpreted predicate of the value read
            l = symx._lift(val)
            p = tm.uf('pred_%s_%d' % (line_name.replace('.', '_').replace(':', '_'), len(node)), (l[0],), 'B')
            b = bool(symx.wrap(p, bool))
            node = node + ((a, b),)
        args = [symx._lift(x)[0] for x in reads]
        fname = 'F_%s_%s' % (line_name.replace('.', '_').replace(':', '_'), '_'.join('%d%s' % (a, 't' if b else 'f') for a, b in node) or 'leaf')
        return symx.wrap(tm.uf(fname, args, 'I'), int) if args else symx.SymInt(tm.uf(fname, (), 'I'))
    return value_fn


def make_forms(world):
    Form = hab_form.Form
    IntegerField = hab_fields.IntegerField
    IntegerInput = hab_inputs.IntegerInput

    class FormA(Form):
        form_name = 'fa'
        tax_year = 1970
        description = 'generated form A'
        long_description = 'oracle'

        def __init__(self, **kwargs):
            inputs = [IntegerInput('i%d' % j) for j in range(world.M)]
            inst = kwargs.get('instance')
            nm = 'fa' if inst is None else 'fa:%s' % inst
            req = [IntegerField('l%d' % k, make_value_fn(world, '%s.l%d' % (nm, k))) for k in range(world.req_a)]
            opt = [IntegerField('l%d' % k, make_value_fn(world, '%s.l%d' % (nm, k))) for k in range(world.req_a, world.N)]
            super().__init__(__class__, inputs, req, opt, **kwargs)

    class FormB(Form):
        form_name = 'fb'
        tax_year = 1970
        description = 'generated form B'
        long_description = 'oracle'

        def __init__(self, **kwargs):
            inst = kwargs.get('instance')
            nm = 'fb' if inst is None else 'fb:%s' % inst
            inputs = [IntegerInput('j0')]
            req = [IntegerField('r0', make_value_fn(world, nm + '.r0'))]
            opt = [IntegerField('o0', make_value_fn(world, nm + '.o0'))]
            super().__init__(__class__, inputs, req, opt, **kwargs)
    return [FormA, FormB] if world.second_form else [FormA]


class Counters(object):
    def __init__(self):
        self.attempts = {}
        self.prompts = {}
        self.prompt_after_refusal = 0
        self.refused = False
        self.total_attempts = 0
        self.waits = {}
        self.prompt_log = []
        self.answered = {}
        self.loop_checks = 0


class StepBudget(Exception):
    pass


def run_solve(world, config, order='symbolic', prompt_mode='symbolic', budget=200, tag='s1'):
    """One real Solver.solve on the generated forms.  Returns a result dict."""
    forms = make_forms(world)
    store = hab_inputs.InputStore.__new__(hab_inputs.InputStore)
    store.config = config
    store.input_specs = {}
    cnt = Counters()

    def prompt(missing, needed_by):
        name = missing.name()
        cnt.prompts[name] = cnt.prompts.get(name, 0) + 1
        if cnt.refused:
            cnt.prompt_after_refusal += 1
        cnt.prompt_log.append((name, [f.name() for f in needed_by]))
        # 0 = refuses, 1 = types a value, 2 = types a blank line (valid: means 0)
        t = tm.var('answer:%s' % name, 'I')
        ex = symx.cur()
        ex.assume(tm.and_(tm.le(tm.I(0), t), tm.lt(t, tm.I(world.n_answers))))
        ans = ex.concretize(t)
        if ans == 1:
            cnt.answered[name] = Tok(name)
            return (cnt.answered[name], True)
        if ans == 2:
            cnt.answered[name] = ''
            return ('', True)
        cnt.refused = True
        return (None, False)

    s = hab_solver.Solver(store, forms, prompt=prompt if prompt_mode != 'none' else None)
    # instrumentation of the run (harness side, nothing in /repo changes)
    orig_attempt = s._attempt_field

    def attempt(field):
        cnt.total_attempts += 1
        cnt.attempts[field.name()] = cnt.attempts.get(field.name(), 0) + 1
        if cnt.total_attempts > budget:
            raise StepBudget()
        return orig_attempt(field)
    s._attempt_field = attempt
    # the main loop evaluates has_met() on every iteration: a loop that spins
    # without attempting anything is caught by the same step budget
    for tr in (s._field_dependencies, s._input_dependencies):
        orig_has_met = tr.has_met

        def has_met(_o=orig_has_met):
            cnt.loop_checks += 1
            if cnt.loop_checks > budget * 20:
                raise StepBudget()
            return _o()
        tr.has_met = has_met
    for tr, label in ((s._field_dependencies, 'f'), (s._input_dependencies, 'i')):
        orig_add = tr.add_unmet

        def add(dep, dependent, _o=orig_add, _l=label):
            cnt.waits.setdefault(dependent.name(), set()).add((_l, dep))
            return _o(dep, dependent)
        tr.add_unmet = add
    old_sort = hab_solver.sort_keys
    if order == 'symbolic':
        def ranks(key):
            if isinstance(key, (hab_fields.Field, hab_inputs.Input)):
                key = key.name()
            t = tm.var('rank:%s' % key, 'I')
            world.rank_names.add(key)
            ex = symx.cur()
            # all ranks distinct (a total order), small range
            cs = [tm.and_(tm.le(tm.I(0), t), tm.lt(t, tm.I(64)))]
            for other in sorted(world.rank_names):
                if other != key:
                    cs.append(tm.ne(t, tm.var('rank:%s' % other, 'I')))
            ex.assume(tm.and_(*cs))
            return symx.SymInt(t)
        hab_solver.sort_keys = ranks
    res = {'exception': None, 'solved': None, 'solver': s, 'counters': cnt, 'store': store}
    try:
        res['solved'] = s.solve(['fa'] + world.extra_requested)
    except StepBudget:
        res['exception'] = 'StepBudget'
    except (symx.PathCut, symx.Unsupported, symx.Nondeterminism):
        raise
    except Exception as e:
        res['exception'] = type(e).__name__
        res['exc_obj'] = e
    finally:
        hab_solver.sort_keys = old_sort
    return res


def signature(res):
    """Order-independent observable result of a solve (terms by identity)."""
    s = res['solver']
    if res['exception'] is not None:
        return ('exc', res['exception'])
    vals = tuple(sorted((k, id(symx._lift(v)[0])) for k, v in s._v.values.items()))
    unimpl = tuple(sorted(set(s.unimplemented_fields())))
    ui = tuple(sorted((k, tuple(sorted(v))) for k, v in s.unmet_input_dependencies().items()))
    uf = tuple(sorted((k, tuple(sorted(v))) for k, v in s.unmet_field_dependencies().items()))
    forms = tuple(sorted(s.forms))
    return ('ok', bool(res['solved']), vals, unimpl, ui, uf, forms)
