"""Oracle: the official per-line instruction, parsed from the accessibility text
(<speak>) of the bundled IRS templates (DESIGN.md 3.9).  A small grammar maps
the text to an expression over lines; text the grammar does not parse leaves
the line *uncovered* (counted), never guessed.

Expression forms (python tuples):
  ('add', [lines])                      ('sub', a, b, floor: bool)
  ('mul_rate', a, Fraction)             ('mul_const', a, Fraction)
  ('min', a, b) / ('max', a, b)         ('min_const', a, {status: const})
  ('carry', line)                       ('carry_form', form, line)
"""
import re
from fractions import Fraction

LINE = r'(\d+[a-z]?)'
SCHED = {'1': '1040_s1', '2': '1040_s2', '3': '1040_s3', 'A': '1040_sa', 'B': '1040_sb', '8812': '1040_s8812'}


def strip_label(text):
    """drop everything up to and including the leading 'N.' label"""
    m = re.match(r'^(?:.*?\b)?(\d+[a-z]?)\.\s+(.*)$', text)
    if not m:
        return None, text
    return m.group(1), m.group(2)


def parse_list(s, order):
    """'1z, 2b, 3b, 4b, 5b, 6b, 7, and 8' / '1a through 1h' / '11 through 23 and 25'"""
    s = s.replace(' and ', ', ').replace(',,', ',')
    out = []
    for part in [p.strip() for p in s.split(',') if p.strip()]:
        m = re.match(r'^%s through %s$' % (LINE, LINE), part)
        if m:
            a, b = m.group(1), m.group(2)
            if a not in order or b not in order:
                return None
            i, j = order.index(a), order.index(b)
            if j < i:
                return None
            out.extend(order[i:j + 1])
        elif re.match(r'^%s$' % LINE, part):
            out.append(part)
        else:
            return None
    return out


def parse(text, order):
    """-> expression or None.  `order`: the form's line names in template order
    (needed for 'A through B')."""
    t = ' '.join(text.split())
    m = re.search(r'\bAdd lines? ([0-9a-z ,]+?(?:through [0-9a-z]+)?(?:,? and [0-9a-z]+)?)\.', t)
    if m and 'amounts' not in m.group(0):
        ls = parse_list(m.group(1), order)
        if ls:
            return ('add', ls)
    m = re.search(r'[Ii]f line %s is more than line %s, subtract line %s from line %s' % (LINE, LINE, LINE, LINE), t)
    if m and m.group(1) == m.group(4) and m.group(2) == m.group(3):
        return ('sub', m.group(4), m.group(3), True)
    m = re.search(r'[Ss]ubtract line %s from line %s\. If zero or less, enter 0\. If more than zero and not a multiple of \$1,000, enter the next multiple of \$1,000' % (LINE, LINE), t)
    if m:
        return ('sub_ceil', m.group(2), m.group(1), 1000)
    m = re.search(r'[Ss]ubtract line %s from line %s\.(.*)$' % (LINE, LINE), t)
    if m:
        rest = m.group(3)
        floor = bool(re.match(r'\s*If zero or less, enter 0', rest) or re.match(r'\s*If line %s is more than line %s, enter 0' % (m.group(1), m.group(2)), rest))
        return ('sub', m.group(2), m.group(1), floor)
    m = re.search(r'Multiply line ' + LINE + r' by ([\d.]+) ?% \((0?\.\d+)\)', t)
    if m:
        pct, dec = Fraction(m.group(2)), Fraction(m.group(3))
        if pct / 100 != dec:
            return None
        return ('mul_rate', m.group(1), dec)
    m = re.search(r'Multiply line %s by \$([\d,]+)\.' % LINE, t)
    if m:
        return ('mul_const', m.group(1), Fraction(m.group(2).replace(',', '')))
    m = re.search(r'Enter the (smaller|larger) of line %s or line %s' % (LINE, LINE), t)
    if m:
        return ('min' if m.group(1) == 'smaller' else 'max', m.group(2), m.group(3))
    m = re.search(r'Enter the smaller of line %s or \$([\d,]+) \(\$([\d,]+) if married filing separately\)' % LINE, t)
    if m:
        return ('min_const', m.group(1), {'MarriedFilingSeparately': Fraction(m.group(3).replace(',', '')), 'other': Fraction(m.group(2).replace(',', ''))})
    m = re.match(r'^Enter the amount from line %s\.' % LINE, t)
    if m:
        return ('carry', m.group(1))
    m = re.search(r'from Schedule (\w+), line %s\.' % LINE, t)
    if m and m.group(1) in SCHED:
        return ('carry_form', SCHED[m.group(1)], m.group(2))
    m = re.search(r'Enter (?:the )?amount from Form 1040(?: or 1040-S R)?, line %s' % LINE, t) or re.search(r'Enter the amount from line %s of your Form 1040' % LINE, t)
    if m:
        return ('carry_form', '1040', m.group(1))
    return None


def lines_of(expr):
    k = expr[0]
    if k == 'add':
        return list(expr[1])
    if k in ('sub', 'sub_ceil'):
        return [expr[1], expr[2]]
    if k in ('mul_rate', 'mul_const', 'min_const', 'carry'):
        return [expr[1]]
    if k in ('min', 'max'):
        return [expr[1], expr[2]]
    return []
