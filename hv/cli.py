"""./check <Cnn> [--tier quick|thorough] [--replay path]"""
import argparse
import importlib
import json
import os
import sys
import traceback

from . import common


def main():
    ap = argparse.ArgumentParser()
    ap.add_argument('pid')
    ap.add_argument('--tier', default=os.environ.get('VERIF_TIER', 'quick'), choices=['quick', 'thorough'])
    ap.add_argument('--replay', default=None)
    a = ap.parse_args()
    pid = a.pid.upper()
    if a.replay:
        with open(a.replay) as f:
            d = json.load(f)
        rep = d['replay']
        out = common.run_real([rep['kind']], rep)
        print(json.dumps(out, indent=1))
        if out.get('reproduced'):
            print('VIOLATION property=%s replay=%s' % (pid, a.replay))
            sys.exit(common.EXIT_VIOLATION)
        sys.exit(common.EXIT_OK)
    try:
        mod = importlib.import_module('hv.checks.' + pid.lower())
        rc = mod.run(a.tier)
    except SystemExit:
        raise
    except BaseException:
        traceback.print_exc()
        print('HARNESS-ERROR property=%s' % pid)
        sys.exit(common.EXIT_HARNESS)
    sys.exit(rc)


if __name__ == '__main__':
    main()
