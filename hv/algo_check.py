"""Shared driver for the algorithm-level properties C01, C03, C04, C05, C06,
C13 (DESIGN.md 3.8): explores all generated programs within the bound and
evaluates every property's assertions on every end state."""
import os
import time

import z3

from . import common, symx
from . import terms as tm

PROPS = ('C01', 'C03', 'C04', 'C05', 'C06', 'C13')


def same_term(ex, pcterms, a, b):
    if a is b:
        return True
    s = z3.Solver()
    s.set('timeout', 10000)
    for t in ex.base:
        s.add(tm.to_z3(t))
    for t in pcterms:
        s.add(tm.to_z3(t))
    s.add(tm.to_z3(tm.ne(a, b)))
    return str(s.check()) == 'unsat'


def check_path(algo, w, ex):
    """Runs the solves of one path and returns a list of (prop, key, what)."""
    v = []
    cfg0 = algo.StubConfig(w)
    r1 = algo.run_solve(w, cfg0, order=w.order, tag='s1')
    s = r1['solver']
    cnt = r1['counters']
    info = {'exception': r1['exception'], 'solved': r1['solved'], 'attempts': cnt.total_attempts}
    # ---------------------------------------------------------------- C06
    if r1['exception'] == 'StepBudget':
        v.append(('C06', 'nontermination', 'more than the step budget of line attempts: the solve does not terminate'))
        return v, info
    for name, n in cnt.prompts.items():
        if n > 1:
            v.append(('C06', 'prompt-twice', 'input %s was asked for %d times' % (name, n)))
            v.append(('C13', 'prompt-twice', 'input %s was asked for %d times' % (name, n)))
    if cnt.prompt_after_refusal:
        v.append(('C06', 'prompt-after-refusal', 'the user was prompted again after refusing'))
    for name, n in cnt.attempts.items():
        bound = 2 + len(cnt.waits.get(name, ()))
        if n > bound:
            v.append(('C06', 'attempts', 'line %s evaluated %d times > 2 + %d distinct waits' % (name, n, len(cnt.waits.get(name, ())))))
    if r1['exception'] is not None:
        # aborts are allowed outcomes (unsupported form, internal assertion on unknown names)
        uses_unknown_line = any(w.action_name(a) == 'read_line fa.zz' for k_, a in w.choices.items() if k_[0] == 'act')
        if r1['exception'] not in ('NotImplementedError',) and not (r1['exception'] == 'AssertionError' and uses_unknown_line):
            v.append(('C01', 'abort-' + r1['exception'], 'solve aborted with %s on a program that only uses known names / supported or deliberately unsupported forms' % r1['exception']))
        return v, info
    # ---------------------------------------------------------------- C13 (demand-exact prompting)
    read_missing = {}
    for e in w.log:
        pass
    for name, needed in cnt.prompt_log:
        # never for an input that was present
        if name in cfg0.set_values and cnt.prompts.get(name, 0) > 1:
            pass
    scheduled = set(s._solving_fields)
    valued = set(s._v.values.keys())
    unimpl = set(s.unimplemented_fields())
    umi = s.unmet_input_dependencies()
    umf = s.unmet_field_dependencies()
    waiters = set()
    for d, ws in list(umi.items()) + list(umf.items()):
        waiters.update(ws)
    # ---------------------------------------------------------------- C01
    if r1['solved']:
        missing = scheduled - valued
        if missing:
            v.append(('C01', 'solved-but-unvalued', 'solve() returned True but scheduled lines have no value: %s' % sorted(missing)))
        if unimpl:
            v.append(('C01', 'solved-but-unimplemented', 'solve() returned True with unimplemented lines %s' % sorted(unimpl)))
        if any(ws for ws in umi.values()) or any(ws for ws in umf.values()):
            v.append(('C01', 'solved-but-waiting', 'solve() returned True with waiters %s %s' % (umi, umf)))
    else:
        unexplained = (scheduled - valued) - unimpl - waiters
        if unexplained:
            v.append(('C01', 'failure-unnamed', 'solve() returned False but does not name unvalued scheduled lines %s' % sorted(unexplained)))
        if not unimpl and not any(umi.values()) and not any(umf.values()):
            v.append(('C01', 'failure-without-reason', 'solve() returned False with empty diagnostics'))
    # ---------------------------------------------------------------- C03 + C04 : re-evaluate against final stores
    FA = algo.hab_form.FormAccessor
    pcterms = [r.term if r.value else tm.not_(r.term) for r in ex.records]
    reads_by = {}
    for name, stored in list(s._v.values.items()):
        fld = s._field_map[name]
        mark = len(w.log)
        try:
            again = fld.value(FA(s._i, fld.form()), FA(s._v, fld.form()))
        except (symx.PathCut, symx.Unsupported, symx.Nondeterminism):
            raise
        except Exception as e:
            v.append(('C03', 'reeval-raises', 'stored line %s cannot be re-evaluated against the final stores: %s' % (name, type(e).__name__)))
            continue
        reads_by[name] = [e[2] for e in w.log[mark:] if e[0] == 'read_line_ok']
        a, b = symx._lift(stored), symx._lift(again)
        if a is None or b is None or not same_term(ex, pcterms, a[0], b[0]):
            v.append(('C03', 'not-fixed-point', 'line %s stored %r but its definition re-evaluated on the final solution gives %r' % (name, stored, again)))
    if r1['solved']:
        closure = set()
        for fname, f in s.forms.items():
            for fld in f.required_fields():
                closure.add(fld.name())
        for name, rs in reads_by.items():
            closure.update(rs)
        for fn in []:
            pass
        skipped = closure - valued
        if skipped:
            v.append(('C01', 'solved-but-read-line-unvalued', 'solve() returned True although lines that evaluated definitions read have no value: %s' % sorted(skipped)))
        if closure != valued:
            v.append(('C04', 'closure-mismatch', 'solution lines %s != demand closure %s' % (sorted(valued), sorted(closure))))
        want_forms = set(n.split('.')[0] for n in valued) | set(['fa'] + w.extra_requested)
        if set(s.forms) != want_forms:
            v.append(('C04', 'forms-mismatch', 'Solver.forms %s != forms of the closure %s' % (sorted(s.forms), sorted(want_forms))))
    else:
        # nothing else: every stored line is required of a participating form or was read by an attempted line
        attempted_reads = set(e[2] for e in w.log if e[0] == 'read_line_ok')
        for fname, f in s.forms.items():
            for fld in f.required_fields():
                attempted_reads.add(fld.name())
        extra = valued - attempted_reads
        if extra:
            v.append(('C04', 'extra-lines', 'partial solution holds lines nobody demanded: %s' % sorted(extra)))
    # ---------------------------------------------------------------- C13: prompts are demand exact
    for name, needed in cnt.prompt_log:
        readers = set(e[1] for e in w.log if e[0] == 'step' and False)
        # the lines quoted as needing it must have read it (they raised MissingInput for it)
        for ln in needed:
            if ('i', name) not in cnt.waits.get(ln, set()):
                v.append(('C13', 'needed-by-wrong', 'prompt for %s quotes %s which did not read it' % (name, ln)))
    # ---------------------------------------------------------------- C05a: natural order gives the same result
    sig1 = algo.signature(r1)
    r2 = algo.run_solve(w, algo.StubConfig(w), order='natural', tag='s2')
    sig2 = algo.signature(r2)
    # (a user who refuses a prompt stops all further prompting, so which inputs
    # end up supplied depends on the prompt order: the comparison is only
    # meaningful when both runs got the same inputs, i.e. nobody refused)
    if sig1 != sig2 and not cnt.refused and not r2['counters'].refused:
        v.append(('C05', 'order-dependent', 'result under the explored attempt order differs from the natural order: %s vs %s' % (short(sig1), short(sig2))))
    # ---------------------------------------------------------------- C13 / C05c: re-run on the written-back store
    if not cnt.refused:
        asked = []
        forms = None
        r3 = algo.run_solve(w, cfg0, order='natural', prompt_mode='symbolic', tag='s3')
        if r3['counters'].prompt_log:
            v.append(('C13', 'asks-again', 're-run on the written-back store prompted for %s' % [p[0] for p in r3['counters'].prompt_log]))
        sig3 = algo.signature(r3)
        if sig3 != sig1:
            v.append(('C13', 'rerun-differs', 're-run on the written-back store gives a different result'))
            v.append(('C05', 'file-vs-prompt', 'the same inputs supplied by file instead of prompt give a different result'))
        # the same answers supplied in the file instead of typed at the prompt
        r4 = algo.run_solve(w, algo.StubConfig(w, preset=cnt.answered), order='natural', prompt_mode='symbolic', tag='s4')
        sig4 = algo.signature(r4)
        if sig4 != sig1 and not r4['counters'].refused:
            v.append(('C05', 'file-vs-prompt', 'the answers typed at the prompt, supplied in the file instead, give a different result: %s vs %s' % (short(sig1), short(sig4))))
    info['prompts'] = len(cnt.prompt_log)
    info['forms'] = sorted(s.forms)
    info['lines'] = len(valued)
    return v, info


def witness(ex, w, p):
    """Concrete environment of the path: program, presence, answers, ranks,
    predicate outcomes (from a model of the path condition)."""
    s = z3.Solver()
    for t in ex.base:
        s.add(tm.to_z3(t))
    for r in p.decisions:
        s.add(tm.to_z3(r.term if r.value else tm.not_(r.term)))
    if str(s.check()) != 'sat':
        return None
    m = s.model()
    wit = {'program': [[repr(k), a] for k, a in w.choices.items()], 'present': {}, 'answers': {}, 'ranks': {}, 'preds': {}}
    for name in w.all_input_names:
        wit['present'][name] = bool(tm.model_value(m, tm.var('present:' + name, 'B')))
        wit.setdefault('defaults', {})[name] = bool(tm.model_value(m, tm.var('default:' + name, 'B'))) if w.defaults else False
        wit['answers'][name] = int(tm.model_value(m, tm.var('answer:' + name, 'I')))
    for name in sorted(w.rank_names):
        wit['ranks'][name] = int(tm.model_value(m, tm.var('rank:' + name, 'I')))
    for r in p.decisions:
        t = r.term
        if t.op.startswith('uf:pred_'):
            wit['preds'][t.op[3:]] = bool(r.value)
    return wit


def short(sig):
    return str(sig)[:300]


def task(arg):
    bounds, first_action, second = arg
    from . import algo
    t0 = time.time()
    ex = symx.Explorer(timeout_ms=20000, max_paths=bounds.get('max_paths', 400000), int_bound=8)
    ex.assume_base(tm.eq(tm.var("act:%s" % (('act', 'fa.l0', ()),), 'I'), tm.I(first_action)))
    if second is not None:
        ex.assume_base(tm.eq(tm.var("act:%s" % (('act', second[0], ()),), 'I'), tm.I(second[1])))
    out = {'paths': 0, 'viol': {}, 'samples': [], 'kinds': {}, 'cut': 0, 'programs': set(), 'max_attempts': 0}
    holder = {}

    def body():
        w = algo.World(bounds['N'], bounds['M'], bounds['D'], second_form=bounds.get('second_form', True), instanced=bounds.get('instanced', False), two_copies=bounds.get('two_copies', False))
        w.req_a = bounds.get('req_a', max(1, bounds['N'] - 1))
        w.extra_requested = list(bounds.get('extra_requested', []))
        w.rank_names = set()
        w.input_modes = bounds.get('input_modes', False)
        w.mode_granularity = bounds.get('mode_granularity', 'program')
        w.n_modes = bounds.get('n_modes', 3)
        w.n_answers = bounds.get('n_answers', 3)
        w.order = bounds.get('order', 'symbolic')
        w.defaults = bounds.get('defaults', False)
        holder['w'] = w
        return check_path(algo, w, ex)
    try:
        budget_s = float(os.environ.get('HV_ALGO_TASK_BUDGET', '900'))
        for p in ex.explore(body):
            out['paths'] += 1
            if time.time() - t0 > budget_s:
                # a changed solver can blow the exploration up: stop, keep what was found, say so
                raise RuntimeError('task wall-clock budget of %ds exhausted after %d paths' % (budget_s, out['paths']))
            if p.cut or p.unsupported:
                out['cut'] += 1
                out['kinds']['cut:%s' % (p.cut or p.unsupported)] = out['kinds'].get('cut:%s' % (p.cut or p.unsupported), 0) + 1
                continue
            if p.exc is not None:
                key = 'harness:%s' % type(p.exc).__name__
                out['kinds'][key] = out['kinds'].get(key, 0) + 1
                if len(out['samples']) < 3:
                    import traceback
                    out['samples'].append({'harness_exception': ''.join(traceback.format_exception(type(p.exc), p.exc, p.exc.__traceback__))[-1500:]})
                continue
            viol, info = p.outcome
            w = holder['w']
            prog = tuple(sorted((str(k), a) for k, a in w.choices.items()))
            out['programs'].add(prog)
            out['max_attempts'] = max(out['max_attempts'], info.get('attempts', 0))
            k = 'solved' if info['solved'] else ('exc:' + str(info['exception']) if info['exception'] else 'unsolved')
            out['kinds'][k] = out['kinds'].get(k, 0) + 1
            wit = None
            for prop, key, what in viol:
                d = out['viol'].setdefault(prop, {})
                if key not in d:
                    if wit is None:
                        wit = witness(ex, w, p)
                    d[key] = {'what': what, 'program': w.describe(), 'count': 0, 'witness': wit}
                d[key]['count'] += 1
            if len(out['samples']) < 2 and info['solved'] is not None:
                out['samples'].append({'program': w.describe(), 'result': k, 'info': {kk: vv for kk, vv in info.items()}})
    except RuntimeError as e:
        out['incomplete'] = str(e)
    out['programs'] = len(out['programs'])
    out['stats'] = dict(ex.stats)
    out['wall'] = time.time() - t0
    return out


def run_all(bounds):
    from . import algo
    w = algo.World(bounds['N'], bounds['M'], bounds['D'], second_form=bounds.get('second_form', True), instanced=bounds.get('instanced', False), two_copies=bounds.get('two_copies', False))
    tasks = []
    for a in range(w.n_actions):
        tgt = None
        k = a - 2 - len(w.input_names)
        if k >= 0:
            tgt = w.targets[k]
        if tgt is None or tgt in ('fa.l0', 'nope.x', 'fa.zz'):
            tasks.append((bounds, a, None))
        else:
            for b in range(w.n_actions):
                tasks.append((bounds, a, (tgt, b)))
    return common.pmap(task, tasks)


def cached_run_all(bounds):
    """The six algorithm-level checks share one exploration per configuration:
    results are cached under the content hash of /repo's habutax sources and
    hv's own sources (recomputed whenever either changes)."""
    import pickle
    from . import retmodel
    key = 'algo-%s-%s' % (retmodel._tree_hash(), '_'.join('%s=%s' % kv for kv in sorted(bounds.items())))
    fn = os.path.join(common.VERIF, '.cache', key.replace(' ', '').replace("'", '').replace('[', '').replace(']', '')[:200] + '.pkl')
    if os.path.exists(fn) and os.environ.get('HV_NO_CACHE') != '1':
        try:
            with open(fn, 'rb') as f:
                return pickle.load(f)
        except Exception:
            pass
    res = run_all(bounds)
    os.makedirs(os.path.dirname(fn), exist_ok=True)
    tmp = fn + '.%d.tmp' % os.getpid()
    with open(tmp, 'wb') as f:
        pickle.dump(res, f)
    os.replace(tmp, fn)
    return res


def run_property(pid, tier, technique_extra='', extra=None):
    # two complementary slices of the space per size: (A) every attempt order x
    # lookup modes {v[x], v.get(x)}; (B) natural order x blank/non-blank/refused answers
    A = dict(order='symbolic', n_modes=2, n_answers=2)
    B = dict(order='natural', n_modes=1, n_answers=3)
    Cdef = dict(order='natural', n_modes=1, n_answers=2, defaults=True)      # [DEFAULT]-provided inputs
    # two numbered copies of one form requested together, lines reading their own copy's input by relative name
    T2 = dict(N=1, M=0, D=1, req_a=1, second_form=True, instanced=True, two_copies=True, extra_requested=['fb:1'], order='natural', n_modes=1, n_answers=2)
    if tier != 'quick':
        os.environ.setdefault('HV_ALGO_TASK_BUDGET', '3600')
    if tier == 'quick':
        configs = [dict(N=2, M=1, D=1, req_a=1, second_form=True, **A), dict(N=2, M=1, D=1, req_a=1, second_form=True, **B), dict(N=2, M=2, D=2, req_a=2, second_form=False, **Cdef), T2]
    else:
        configs = [dict(N=2, M=1, D=1, req_a=1, second_form=True, order='symbolic', n_modes=3, n_answers=3),
                   dict(N=2, M=2, D=2, req_a=1, second_form=False, **A), dict(N=2, M=2, D=2, req_a=1, second_form=False, **B),
                   dict(N=2, M=2, D=2, req_a=2, second_form=False, **Cdef),
                   dict(N=2, M=1, D=1, req_a=1, second_form=True, instanced=True, **A),
                   dict(N=3, M=1, D=1, req_a=2, second_form=False, **B), T2]
    c = common.Check(pid, tier, 'bounded symbolic execution of the real Solver/DependencyTracker/ValueStore/InputStore on generated form programs: line behaviour, input presence, prompt answers and attempt order are SMT choices explored lazily to exhaustion; values are EUF terms' + technique_extra,
                     ['habutax.solver.Solver.solve/_attempt_field/_attempt_input/_add_form/_add_unattempted', 'habutax.solver.DependencyTracker.*', 'habutax.values.ValueStore', 'habutax.form.FormAccessor',
                      'habutax.inputs.InputStore.__getitem__/__setitem__/provides', 'habutax.fields.TypedField.value', 'habutax.inputs.IntegerInput.value/valid'])
    c.stubs = ['line definitions: nondeterministic oracle (decision tree of SMT choices, EUF results)', 'configparser behind InputStore: keyed stub (has_option symbolic)', 'prompt callback: symbolic answer/refusal per input',
               'habutax.solver.sort_keys: symbolic ranks (all-different)']
    c.assumptions = ['a line definition is a deterministic function of what it reads', 'programs use known names, supported forms or the deliberately unsupported form "nope"; unknown input names are outside (C10)',
                     '(Q1) finite-domain exploration: the solver decides feasibility and exhaustiveness of the case split, the end-state assertions are evaluated per path']
    c.bounds = {'configs': configs}
    c.outside = ['programs with more lines / deeper decision trees than the listed configurations', 'unknown input names (unbounded recursion: C10)', 'string/float-valued lines (C12)']
    for cfgb in configs:
        results = cached_run_all(cfgb)
        tot_paths = sum(r['paths'] for r in results)
        c.paths += tot_paths
        kinds = {}
        for r in results:
            c.solver_s += r['stats']['solver_s']
            for k, n in r['kinds'].items():
                kinds[k] = kinds.get(k, 0) + n
            if r.get('incomplete'):
                c.inconclusive.append('config %s: exploration incomplete (%s)' % (cfgb, r['incomplete']))
            for s in r['samples'][:1]:
                if len(c.samples) < 6:
                    c.samples.append(s)
            for key, d in r['viol'].get(pid, {}).items():
                rep = {'kind': 'program', 'bounds': cfgb, 'program': d['program'], 'property': pid, 'key': key, 'witness': d['witness']}
                if d['witness'] is None:
                    c.inconclusive.append('no model for violating path %s' % key)
                    continue
                outr = common.run_real(['program'], rep)
                c.replays_run += 1
                if outr.get('reproduced'):
                    c.violation('%s:%s' % (pid, key), d['what'] + ' [program %s; replayed on the real code: %s]' % (d['program'], outr.get('detail')), rep)
                else:
                    c.spurious += 1
                    c.inconclusive.append('witness for %s did not reproduce on the real code (%s)' % (key, outr.get('found')))
        harness = {k: n for k, n in kinds.items() if k.startswith('harness:')}
        if harness:
            raise RuntimeError('harness exceptions: %s %s' % (harness, [s for r in results for s in r['samples'] if 'harness_exception' in s][:1]))
        name = 'N=%d,M=%d,D=%d,second=%s,inst=%s,order=%s,modes=%s,answers=%s' % (cfgb['N'], cfgb['M'], cfgb['D'], cfgb.get('second_form'), cfgb.get('instanced', False), cfgb.get('order'), cfgb.get('n_modes'), cfgb.get('n_answers')) + (',defaults' if cfgb.get('defaults') else '') + (',two-copies' if cfgb.get('two_copies') else '')
        # one obligation per explored path: "all assertions of <pid> hold on this end state"
        nviol = sum(d['count'] for r in results for d in r['viol'].get(pid, {}).values())
        c.obligations += tot_paths
        c.discharged += tot_paths - nviol
        c.sat += nviol
        for i in range(min(tot_paths, 5000)):
            pass
        c.distinct.update(('path', name, i) for i in range(sum(r['programs'] for r in results)))
        c.extra.setdefault('per_config', {})[name] = {'paths': tot_paths, 'distinct_programs': sum(r['programs'] for r in results), 'outcomes': kinds,
                                                     'max_attempts_in_one_solve': max(r['max_attempts'] for r in results), 'wall_s': round(max(r['wall'] for r in results), 1)}
        if kinds.get('solved', 0) == 0 or kinds.get('unsolved', 0) == 0:
            c.inconclusive.append('vacuity: config %s reached no solved or no unsolved end state' % name)
    if extra is not None:
        extra(c, tier)
    return c.finish()
