"""Concrete replay of a generated form program (hv.algo witness) against the
UNINSTRUMENTED habutax under the repo's interpreter.  Mirrors the assertions
of hv.algo_check.check_path on concrete values.  stdlib + habutax only."""
import configparser
import hashlib


def _h(*a):
    return int(hashlib.md5(repr(a).encode()).hexdigest()[:8], 16) % 1000003


def replay(d):
    from habutax import solver as hsolver, form as hform, fields as hfields, inputs as hinputs
    wit = d['witness']
    b = d['bounds']
    N, M, D = b['N'], b['M'], b['D']
    second = b.get('second_form', True)
    inst = ':0' if b.get('instanced') else ''
    req_a = b.get('req_a', max(1, N - 1))
    targets = ['fa.l%d' % k for k in range(N)]
    if second:
        targets += ['fb%s.r0' % inst, 'fb%s.o0' % inst]
        if b.get('instanced') and b.get('two_copies'):
            targets.append('fb:1.r0')
    targets.append('nope.x')
    targets.append('fa.zz')
    input_names = ['fa.i%d' % j for j in range(M)]
    if second:
        input_names.append('fb%s.j0' % inst)
    all_input_names = list(input_names) + (['fb:1.j0'] if (second and b.get('instanced') and b.get('two_copies')) else [])
    program = {k: v for k, v in wit['program']}
    preds = wit['preds']
    log = []

    def choose(line, node):
        key = repr(('act', line, node))
        if key not in program:
            raise KeyError('program node not in witness: ' + key)
        return program[key]

    def make_value_fn(line_name):
        own_form = line_name.split('.')[0]

        def rel(name):
            f, base = name.split('.', 1)
            if f == own_form:
                return base, name
            if b.get('instanced') and own_form == 'fb:1' and name == 'fb:0.j0':
                return base, own_form + '.' + base
            return name, name

        def value_fn(self, i, v):
            node = ()
            reads = []
            for step in range(D + 1):
                a = choose(line_name, node)
                if a == 0:
                    break
                if a == 1:
                    self.not_implemented()
                a -= 2
                kind_ = 'i' if a < len(input_names) else 'v'
                mode = 0
                for mkey in (repr(('mode', kind_)), repr(('mode', kind_, line_name)), repr(('mode', kind_, line_name, node))):
                    if mkey in program:
                        mode = program[mkey]
                MISSING = -1
                if a < len(input_names):
                    lname, name = rel(input_names[a])
                    val = i[lname] if mode == 0 else (i.get(lname, MISSING) if mode == 1 else (1 if lname in i else 0))
                else:
                    lname, name = rel(targets[a - len(input_names)])
                    val = v[lname] if mode == 0 else (v.get(lname, MISSING) if mode == 1 else (1 if lname in v else 0))
                    log.append(('read_line_ok', line_name, name))
                reads.append(val)
                pname = 'pred_%s_%d' % (line_name.replace('.', '_').replace(':', '_'), len(node))
                bval = bool(preds.get(pname, False))
                node = node + ((a, bval),)
            fname = 'F_%s_%s' % (line_name, '_'.join('%d%s' % (a, 't' if bb else 'f') for a, bb in node) or 'leaf')
            return _h(fname, tuple(reads))
        return value_fn

    class FormA(hform.Form):
        form_name = 'fa'
        tax_year = 1970
        description = 'generated form A'
        long_description = 'oracle'

        def __init__(self, **kwargs):
            i_ = kwargs.get('instance')
            nm = 'fa' if i_ is None else 'fa:%s' % i_
            inputs = [hinputs.IntegerInput('i%d' % j) for j in range(M)]
            req = [hfields.IntegerField('l%d' % k, make_value_fn('%s.l%d' % (nm, k))) for k in range(req_a)]
            opt = [hfields.IntegerField('l%d' % k, make_value_fn('%s.l%d' % (nm, k))) for k in range(req_a, N)]
            super().__init__(__class__, inputs, req, opt, **kwargs)

    class FormB(hform.Form):
        form_name = 'fb'
        tax_year = 1970
        description = 'generated form B'
        long_description = 'oracle'

        def __init__(self, **kwargs):
            i_ = kwargs.get('instance')
            nm = 'fb' if i_ is None else 'fb:%s' % i_
            inputs = [hinputs.IntegerInput('j0')]
            req = [hfields.IntegerField('r0', make_value_fn(nm + '.r0'))]
            opt = [hfields.IntegerField('o0', make_value_fn(nm + '.o0'))]
            super().__init__(__class__, inputs, req, opt, **kwargs)
    forms = [FormA, FormB] if second else [FormA]

    def new_store(preset=None):
        cp = configparser.ConfigParser()
        for name, text in (preset or {}).items():
            sec, key = name.split('.')
            if not cp.has_section(sec):
                cp.add_section(sec)
            cp.set(sec, key, text)
        for name in all_input_names:
            if wit.get('defaults', {}).get(name):
                cp.set('DEFAULT', name.split('.')[1], str(_h('inval', 'DEFAULT.' + name.split('.')[1])))
        for name in all_input_names:
            if name in (preset or {}):
                continue
            if wit['present'].get(name):
                sec, key = name.split('.')
                if not cp.has_section(sec):
                    cp.add_section(sec)
                cp.set(sec, key, str(_h('inval', name)))
        return hinputs.InputStore(cp)

    def run(store, ranks, prompting=True):
        cnt = {'prompts': {}, 'after_refusal': 0, 'refused': False, 'attempts': {}, 'total': 0, 'waits': {}, 'plog': [], 'answered': {}}

        def prompt(missing, needed_by):
            name = missing.name()
            cnt['prompts'][name] = cnt['prompts'].get(name, 0) + 1
            if cnt['refused']:
                cnt['after_refusal'] += 1
            cnt['plog'].append((name, [f.name() for f in needed_by]))
            a_ = int(wit['answers'].get(name, 0))
            if a_ == 1:
                cnt['answered'][name] = str(_h('inval', name))
                return (cnt['answered'][name], True)
            if a_ == 2:
                cnt['answered'][name] = ''
                return ('', True)
            cnt['refused'] = True
            return (None, False)
        s = hsolver.Solver(store, forms, prompt=prompt if prompting else None)
        orig = s._attempt_field

        def attempt(field):
            cnt['total'] += 1
            cnt['attempts'][field.name()] = cnt['attempts'].get(field.name(), 0) + 1
            if cnt['total'] > 200:
                raise RuntimeError('StepBudget')
            return orig(field)
        s._attempt_field = attempt
        for tr in (s._field_dependencies, s._input_dependencies):
            ohm = tr.has_met

            def has_met(_o=ohm):
                cnt['loops'] = cnt.get('loops', 0) + 1
                if cnt['loops'] > 4000:
                    raise RuntimeError('StepBudget')
                return _o()
            tr.has_met = has_met
        for tr, label in ((s._field_dependencies, 'f'), (s._input_dependencies, 'i')):
            oa = tr.add_unmet

            def add(dep, dependent, _o=oa, _l=label):
                cnt['waits'].setdefault(dependent.name(), set()).add((_l, dep))
                return _o(dep, dependent)
            tr.add_unmet = add
        old = hsolver.sort_keys
        if ranks is not None:
            def sk(key):
                if isinstance(key, (hfields.Field, hinputs.Input)):
                    key = key.name()
                return ranks.get(key, 1000 + _h(key) % 1000)
            hsolver.sort_keys = sk
        res = {'exc': None, 'solved': None, 's': s, 'cnt': cnt}
        try:
            res['solved'] = s.solve(['fa'] + list(b.get('extra_requested', [])))
        except RuntimeError as e:
            res['exc'] = 'StepBudget' if 'StepBudget' in str(e) else 'RuntimeError'
        except Exception as e:
            res['exc'] = type(e).__name__
        finally:
            hsolver.sort_keys = old
        return res

    def sig(r):
        if r['exc']:
            return ('exc', r['exc'])
        s = r['s']
        return ('ok', bool(r['solved']), tuple(sorted(s._v.values.items())), tuple(sorted(set(s.unimplemented_fields()))),
                tuple(sorted((k, tuple(sorted(v))) for k, v in s.unmet_input_dependencies().items())),
                tuple(sorted((k, tuple(sorted(v))) for k, v in s.unmet_field_dependencies().items())), tuple(sorted(s.forms)))

    found = []
    store1 = new_store()
    r1 = run(store1, wit['ranks'])
    cnt = r1['cnt']
    if r1['exc'] == 'StepBudget':
        found.append('nontermination')
    for name, n in cnt['prompts'].items():
        if n > 1:
            found.append('prompt-twice')
    if cnt['after_refusal']:
        found.append('prompt-after-refusal')
    for name, n in cnt['attempts'].items():
        if n > 2 + len(cnt['waits'].get(name, ())):
            found.append('attempts')
    if r1['exc'] is not None:
        uses_unknown = any(v == 2 + len(input_names) + targets.index('fa.zz') for k, v in program.items() if k.startswith("('act'"))
        if r1['exc'] != 'NotImplementedError' and not (r1['exc'] == 'AssertionError' and uses_unknown):
            found.append('abort-' + r1['exc'])
        return {'found': found, 'detail': 'exception %s' % r1['exc']}
    s = r1['s']
    scheduled = set(s._solving_fields)
    valued = set(s._v.values.keys())
    unimpl = set(s.unimplemented_fields())
    umi, umf = s.unmet_input_dependencies(), s.unmet_field_dependencies()
    waiters = set()
    for dd, ws in list(umi.items()) + list(umf.items()):
        waiters.update(ws)
    if r1['solved']:
        if scheduled - valued:
            found.append('solved-but-unvalued')
        if unimpl:
            found.append('solved-but-unimplemented')
        if any(umi.values()) or any(umf.values()):
            found.append('solved-but-waiting')
    else:
        if (scheduled - valued) - unimpl - waiters:
            found.append('failure-unnamed')
        if not unimpl and not any(umi.values()) and not any(umf.values()):
            found.append('failure-without-reason')
    reads_by = {}
    FA = hform.FormAccessor
    for name, stored in list(s._v.values.items()):
        fld = s._field_map[name]
        mark = len(log)
        try:
            again = fld.value(FA(s._i, fld.form()), FA(s._v, fld.form()))
        except Exception:
            found.append('reeval-raises')
            continue
        reads_by[name] = [e[2] for e in log[mark:] if e[0] == 'read_line_ok']
        if again != stored:
            found.append('not-fixed-point')
    if r1['solved']:
        closure = set()
        for fname, f in s.forms.items():
            for fld in f.required_fields():
                closure.add(fld.name())
        for name, rs in reads_by.items():
            closure.update(rs)
        if closure - valued:
            found.append('solved-but-read-line-unvalued')
        if closure != valued:
            found.append('closure-mismatch')
        if set(s.forms) != set(n.split('.')[0] for n in valued) | set(['fa'] + list(b.get('extra_requested', []))):
            found.append('forms-mismatch')
    else:
        attempted = set(e[2] for e in log if e[0] == 'read_line_ok')
        for fname, f in s.forms.items():
            for fld in f.required_fields():
                attempted.add(fld.name())
        if valued - attempted:
            found.append('extra-lines')
    for name, needed in cnt['plog']:
        for ln in needed:
            if ('i', name) not in cnt['waits'].get(ln, set()):
                found.append('needed-by-wrong')
    r2 = run(new_store(), None)
    if sig(r1) != sig(r2):
        found.append('order-dependent')
    if not cnt['refused']:
        r3 = run(store1, None)
        if r3['cnt']['plog']:
            found.append('asks-again')
        if sig(r3) != sig(r1):
            found.append('rerun-differs')
            found.append('file-vs-prompt')
    if not cnt['refused']:
        r4 = run(new_store(cnt['answered']), None)
        if sig(r4) != sig(r1) and not r4['cnt']['refused'] and 'file-vs-prompt' not in found:
            found.append('file-vs-prompt')
    return {'found': sorted(set(found)), 'detail': 'solved=%s values=%s unimplemented=%s' % (r1['solved'], sorted(valued), sorted(unimpl))}
