"""Oracle: field trees of the bundled PDF templates (DESIGN.md 3.9), re-extracted
from /repo's PDFs on every run.  No PDF library: zlib + a small object reader.

* XFA packet (IRS forms): full SOM field names, widget kind, <speak> text
  (the official per-line instruction), check-box export values, maxChars.
* AcroForm (all forms, the NC ones have nothing else): /T names through the
  /Parent chain, /FT, /MaxLen, appearance states (/AP /N keys), /Opt.
"""
import re
import zlib
import xml.etree.ElementTree as ET


def _streams(data):
    for m in re.finditer(rb'stream\r?\n', data):
        start = m.end()
        end = data.find(b'endstream', start)
        if end < 0:
            continue
        raw = data[start:end]
        try:
            yield start, zlib.decompress(raw)
        except Exception:
            try:
                yield start, zlib.decompressobj().decompress(raw)
            except Exception:
                continue


# ------------------------------------------------------------------ XFA
def xfa_template(path):
    with open(path, 'rb') as f:
        data = f.read()
    for _, d in _streams(data):
        if d.lstrip().startswith(b'<template'):
            return d.decode('utf-8', 'replace')
    return None


def _local(tag):
    return tag.split('}', 1)[1] if '}' in tag else tag


def load_xfa(path):
    """-> list of dict(name, kind, speak, items, max_chars) or None"""
    t = xfa_template(path)
    if t is None:
        return None
    root = ET.fromstring(t)
    out = []

    def walk(node, prefix):
        counts = {}
        for ch in list(node):
            tag = _local(ch.tag)
            if tag not in ('subform', 'field', 'exclGroup', 'area', 'subformSet'):
                continue
            name = ch.get('name')
            if tag in ('area', 'subformSet') and not name:
                walk(ch, prefix)
                continue
            if name is None:
                # unnamed subforms are transparent in SOM expressions
                walk(ch, prefix)
                continue
            idx = counts.get(name, 0)
            counts[name] = idx + 1
            full = '%s%s[%d]' % (prefix + '.' if prefix else '', name, idx)
            if tag == 'field':
                kind = None
                items = []
                max_chars = None
                speak = None
                for sub in ch.iter():
                    st = _local(sub.tag)
                    if st in ('textEdit', 'checkButton', 'choiceList', 'numericEdit', 'dateTimeEdit', 'button', 'signature', 'barcode', 'imageEdit', 'passwordEdit') and kind is None:
                        kind = st
                    elif st == 'speak' and speak is None:
                        speak = ' '.join((sub.text or '').split())
                    elif st == 'text' and sub.get('maxChars'):
                        max_chars = int(sub.get('maxChars'))
                for sub in ch:
                    if _local(sub.tag) == 'items':
                        for it in sub:
                            items.append((it.text or '').strip())
                out.append({'name': full, 'kind': kind, 'speak': speak, 'items': items, 'max_chars': max_chars})
            else:
                walk(ch, full)
    walk(root, '')
    return out


# ------------------------------------------------------------------ AcroForm
_OBJ = re.compile(rb'(\d+)\s+(\d+)\s+obj\b')


def _objects(data):
    """object number -> raw bytes of the object body (dictionary part)"""
    objs = {}
    for m in _OBJ.finditer(data):
        num = int(m.group(1))
        end = data.find(b'endobj', m.end())
        if end < 0:
            continue
        objs[num] = data[m.end():end]
    # object streams
    for num, body in list(objs.items()):
        if b'/ObjStm' not in body[:400]:
            continue
        sm = re.search(rb'stream\r?\n', body)
        if not sm:
            continue
        raw = body[sm.end():]
        e = raw.rfind(b'endstream')
        if e >= 0:
            raw = raw[:e]
        try:
            d = zlib.decompress(raw)
        except Exception:
            try:
                d = zlib.decompressobj().decompress(raw)
            except Exception:
                continue
        fm = re.search(rb'/First\s+(\d+)', body)
        nm = re.search(rb'/N\s+(\d+)', body)
        if not fm or not nm:
            continue
        first, n = int(fm.group(1)), int(nm.group(1))
        header = d[:first].split()
        pairs = [(int(header[2 * i]), int(header[2 * i + 1])) for i in range(min(n, len(header) // 2))]
        for i, (onum, off) in enumerate(pairs):
            stop = pairs[i + 1][1] if i + 1 < len(pairs) else len(d) - first
            objs.setdefault(onum, d[first + off:first + stop])
    return objs


def _pdf_string(raw):
    """decode a PDF literal or hex string token to text"""
    raw = raw.strip()
    if raw.startswith(b'<'):
        h = re.sub(rb'[^0-9A-Fa-f]', b'', raw)
        if len(h) % 2:
            h += b'0'
        b = bytes.fromhex(h.decode())
    else:
        s = raw[1:-1]
        out = bytearray()
        i = 0
        while i < len(s):
            c = s[i]
            if c == 0x5c and i + 1 < len(s):
                i += 1
                c2 = s[i]
                m = {ord('n'): 10, ord('r'): 13, ord('t'): 9, ord('b'): 8, ord('f'): 12, ord('('): 40, ord(')'): 41, 0x5c: 0x5c}
                if c2 in m:
                    out.append(m[c2])
                elif 48 <= c2 <= 55:
                    o = bytes([c2])
                    while len(o) < 3 and i + 1 < len(s) and 48 <= s[i + 1] <= 55:
                        i += 1
                        o += bytes([s[i]])
                    out.append(int(o, 8) & 255)
                else:
                    out.append(c2)
            else:
                out.append(c)
            i += 1
        b = bytes(out)
    if b.startswith(b'\xfe\xff'):
        return b[2:].decode('utf-16-be', 'replace')
    return b.decode('latin-1')


def _find_string(body, key):
    m = re.search(rb'/' + key + rb'\s*(\((?:\\.|[^\\()]|\((?:\\.|[^\\()])*\))*\)|<[0-9A-Fa-f\s]*>)', body)
    return _pdf_string(m.group(1)) if m else None


def load_acroform(path):
    """-> dict full field name -> dict(ft, maxlen, states, opts, kids)"""
    with open(path, 'rb') as f:
        data = f.read()
    objs = _objects(data)
    info = {}
    for num, body in objs.items():
        t = _find_string(body, rb'T')
        if t is None:
            continue
        pm = re.search(rb'/Parent\s+(\d+)\s+\d+\s+R', body)
        ft = re.search(rb'/FT\s*/(\w+)', body)
        ml = re.search(rb'/MaxLen\s+(\d+)', body)
        states = set()
        apm = re.search(rb'/AP\s*<<(.*?)>>\s*(?:/|>>)', body, re.S)
        for nm in re.finditer(rb'/N\s*<<(.*?)>>', body, re.S):
            for k in re.finditer(rb'/([^\s/<>\[\]()]+)\s+\d+\s+\d+\s+R', nm.group(1)):
                states.add(k.group(1).decode('latin-1'))
        opts = []
        om = re.search(rb'/Opt\s*\[(.*?)\]\s*(?:/|>>)', body, re.S)
        if om:
            for sm in re.finditer(rb'\((?:\\.|[^\\()])*\)|<[0-9A-Fa-f\s]+>', om.group(1)):
                opts.append(_pdf_string(sm.group(0)))
        kids = [int(k) for k in re.findall(rb'(\d+)\s+\d+\s+R', (re.search(rb'/Kids\s*\[(.*?)\]', body, re.S) or re.match(b'()', b'')).group(1))] if b'/Kids' in body else []
        info[num] = {'t': t, 'parent': int(pm.group(1)) if pm else None, 'ft': ft.group(1).decode() if ft else None,
                     'maxlen': int(ml.group(1)) if ml else None, 'states': states, 'opts': opts, 'kids': kids}
    # kid widgets without /T inherit: collect their appearance states into the parent
    for num, body in objs.items():
        if num in info:
            continue
        pm = re.search(rb'/Parent\s+(\d+)\s+\d+\s+R', body)
        if pm and int(pm.group(1)) in info and b'/AP' in body:
            for nm in re.finditer(rb'/N\s*<<(.*?)>>', body, re.S):
                for k in re.finditer(rb'/([^\s/<>\[\]()]+)\s+\d+\s+\d+\s+R', nm.group(1)):
                    info[int(pm.group(1))]['states'].add(k.group(1).decode('latin-1'))
    out = {}
    for num, d in info.items():
        parts = [d['t']]
        p = d['parent']
        ft, ml = d['ft'], d['maxlen']
        seen = set()
        while p is not None and p in info and p not in seen:
            seen.add(p)
            parts.append(info[p]['t'])
            ft = ft or info[p]['ft']
            ml = ml if ml is not None else info[p]['maxlen']
            p = info[p]['parent']
        full = '.'.join(reversed(parts))
        terminal = not any(k in info for k in d['kids'])
        out[full] = {'ft': ft, 'maxlen': ml, 'states': sorted(d['states']), 'opts': d['opts'], 'terminal': terminal}
    return out


# ---------------------------------------------------------------------------
# page text (templates without accessibility text: NC forms).  Literal strings
# and 2-byte glyph strings (glyph id = code point - 29 in these templates) of
# the text-showing operators, whitespace-normalised.  Used only to *anchor*
# transcribed instructions in the bundled template (C02), never parsed.
_PT_CACHE = {}


def page_text(path):
    if path in _PT_CACHE:
        return _PT_CACHE[path]
    data=open(path,'rb').read()
    out=[]
    for m in re.finditer(rb'stream\r?\n(.*?)\r?\nendstream', data, re.S):
        try: d=zlib.decompress(m.group(1))
        except Exception: continue
        if b'BT' not in d: continue
        for t in re.finditer(rb'\[((?:[^\]\\]|\\.)*)\]\s*TJ|\(((?:[^()\\]|\\.)*)\)\s*Tj', d, re.S):
            if t.group(1) is not None:
                parts=re.findall(rb'\(((?:[^()\\]|\\.)*)\)|<([0-9A-Fa-f]+)>', t.group(1))
                s=b''
                for lit,hx in parts:
                    if lit: s+=lit
                    elif hx and len(hx)%4==0:
                        s+=bytes((int(hx[i:i+4],16)+29)&0xff for i in range(0,len(hx),4))
            else: s=t.group(2)
            out.append(re.sub(rb'\\([()\\])', rb'\1', s).decode('latin1'))
        for t in re.finditer(rb'<([0-9A-Fa-f]+)>\s*Tj', d):
            hx=t.group(1)
            if len(hx)%4==0:
                out.append(bytes((int(hx[i:i+4],16)+29)&0xff for i in range(0,len(hx),4)).decode('latin1'))
    _PT_CACHE[path] = ' '.join(' '.join(out).split())
    return _PT_CACHE[path]
