"""Self-test (DESIGN.md 3.10): translator validation + proxy/CPython agreement.

1. the repository's own unittest suite runs against the *instrumented* modules
   (every helper must be the identity on concrete operands);
2. proxy arithmetic is compared with CPython on a fixed corpus by evaluating
   the produced terms;
3. explorer sanity: path counts / feasibility on tiny programs with known
   answers, including a reachability witness.

Exit 0 = ok, exit 2 = harness error.
"""
import io
import os
import sys
import time
import unittest
from fractions import Fraction

from . import instrument


def run_repo_tests(verbose=False):
    instrument.install()
    cwd = os.getcwd()
    os.chdir(instrument.REPO)
    try:
        loader = unittest.defaultTestLoader
        suite = unittest.TestSuite()
        names = []
        for root, dirs, files in os.walk(os.path.join(instrument.REPO, 'tests')):
            for fn in sorted(files):
                if fn.startswith('test_') and fn.endswith('.py'):
                    rel = os.path.relpath(os.path.join(root, fn), instrument.REPO)[:-3].replace(os.sep, '.')
                    names.append(rel)
        load_errors = []
        for n in sorted(names):
            try:
                suite.addTests(loader.loadTestsFromName(n))
            except Exception as e:  # ty2023 tests are not importable in the baseline either
                load_errors.append((n, repr(e)))
        stream = io.StringIO()
        res = unittest.TextTestRunner(stream=stream, verbosity=0).run(suite)
        load_errors += [(str(t), 'load') for t, _ in res.errors if 'FailedTest' in str(type(t)) or '_FailedTest' in repr(t)]
        real_errors = [(str(t), tb) for t, tb in res.errors if '_FailedTest' not in repr(t)]
        ok = res.testsRun - len(res.failures) - len(res.errors)
        return {'run': res.testsRun, 'passed': ok, 'failures': [(str(t), tb) for t, tb in res.failures],
                'errors': real_errors, 'load_errors': load_errors, 'output': stream.getvalue()}
    finally:
        os.chdir(cwd)


def proxy_corpus():
    """Proxy operators vs CPython: build the expression on proxies, evaluate the
    term under the concrete environment, compare with running on concretes."""
    from . import symx, terms as tm, rt
    bad = []
    ex = symx.Explorer()
    vals_i = [-7, -1, 0, 1, 2, 5, 100]
    vals_f = [-2.5, -0.01, 0.0, 0.5, 1.25, 99.99, 13850.0]

    def exprs():
        yield 'a+b*2-1', lambda a, b: a + b * 2 - 1
        yield 'a-b', lambda a, b: a - b
        yield 'rsub', lambda a, b: 3 - a + (2 * b)
        yield 'lt', lambda a, b: a < b
        yield 'le', lambda a, b: a <= b
        yield 'ge', lambda a, b: a >= b
        yield 'eq', lambda a, b: a == b
        yield 'ne', lambda a, b: a != b
        yield 'neg', lambda a, b: -a + abs(b)
        yield 'mixed', lambda a, b: (a + 1) * 0.5 - b

    def run(fn, a, b, sa, sb):
        out = {}

        def body():
            out['r'] = fn(sa, sb)
        symx.CUR = ex
        try:
            body()
        finally:
            symx.CUR = None
        return out['r']

    for ta, va in (('I', vals_i), ('R', vals_f)):
        for tb_, vb in (('I', vals_i), ('R', vals_f)):
            sa = symx.SymInt(tm.var('a', 'I')) if ta == 'I' else symx.SymFloat(tm.var('a', 'R'))
            sb = symx.SymInt(tm.var('b', 'I')) if tb_ == 'I' else symx.SymFloat(tm.var('b', 'R'))
            for name, fn in exprs():
                r = run(fn, None, None, sa, sb)
                for a in va:
                    for b in vb:
                        want = fn(a, b)
                        env = {'a': Fraction(repr(a)) if ta == 'R' else a, 'b': Fraction(repr(b)) if tb_ == 'R' else b}
                        got = tm.evaluate(r.term, env) if isinstance(r, symx.Sym) else r
                        wt = type(want)
                        gt = r.pytype if isinstance(r, symx.Sym) else type(r)
                        if wt is not gt:
                            bad.append((name, a, b, 'type', wt, gt))
                            continue
                        w = Fraction(repr(want)) if isinstance(want, float) else want
                        if isinstance(w, Fraction) or isinstance(got, Fraction):
                            if abs(Fraction(w) - Fraction(got)) > Fraction(1, 10 ** 9):
                                bad.append((name, a, b, want, got))
                        elif w != got:
                            bad.append((name, a, b, want, got))
    # int floor division / modulo incl. negative divisors (z3 encoding checked in terms)
    return bad


def explorer_sanity():
    from . import symx, terms as tm
    problems = []
    # 1. three-way branch: exactly 3 feasible paths, the 4th infeasible
    ex = symx.Explorer()

    def prog():
        x = symx.fresh_int('x', 0, 10)
        if x < 3:
            if x > 5:
                return 'impossible'
            return 'low'
        if x == 7:
            return 'seven'
        return 'other'
    outs = sorted(p.outcome for p in ex.explore(prog))
    if outs != ['low', 'other', 'seven']:
        problems.append(('three-way', outs))
    # 2. max/min/round semantics
    ex = symx.Explorer()
    from . import rt

    def prog2():
        a = symx.fresh_money('a', lo=0, hi=1000)
        r = rt.max_(0.0, a - 5)
        return rt.round_(r * 0.5, 2)
    n = 0
    for p in ex.explore(prog2):
        n += 1
        r = p.outcome
        # |r - max(0,a-5)/2| <= 0.005+eps must hold on every path: negation unsat
        s = ex.solver
        a = tm.div(tm.to_real(tm.var('a#k', 'I')), tm.R(100))
        want = tm.mul(tm.max_(tm.R(0), tm.sub(a, tm.R(5))), tm.R(Fraction(1, 2)))
        t = r.term if isinstance(r, symx.Sym) else tm.R(r)
        neg = tm.or_(tm.lt(tm.R(Fraction(5001, 10 ** 6)), tm.sub(t, want)), tm.lt(tm.R(Fraction(5001, 10 ** 6)), tm.sub(want, t)))
        import z3
        chk = z3.Solver()
        for b in ex.base:
            chk.add(tm.to_z3(b))
        chk.add(tm.to_z3(p.pc()))
        chk.add(tm.to_z3(neg))
        if str(chk.check()) != 'unsat':
            problems.append(('round', str(chk.check())))
        # reachability twin: the path itself must be feasible
        chk2 = z3.Solver()
        chk2.add(tm.to_z3(p.pc()))
        if str(chk2.check()) != 'sat':
            problems.append(('vacuous path', n))
    if n < 1:
        problems.append(('no paths', n))
    # 3. range() forks over counts 0..K and cuts beyond
    ex = symx.Explorer(int_bound=3)

    def prog3():
        n = symx.fresh_int('n', 0, 10)
        return len(list(rt.range_(n)))
    ps = list(ex.explore(prog3))
    got = sorted(p.outcome for p in ps if p.cut is None)
    cuts = [p.cut for p in ps if p.cut]
    if got != [0, 1, 2, 3] or len(cuts) != 1:
        problems.append(('range', got, cuts))
    return problems


def dfa_corpus():
    """float()/int() grammar DFAs and str helpers of hv.bstr vs CPython."""
    import math
    from . import symx, bstr, terms as tm
    corpus = ['', ' ', '0', '7', '-3', '+12', ' 42 ', '1_0', '1__0', '_1', '1_', '1.5', '.5', '5.', '.', '-.5e3', '1e5', '1e', '1e_5', '1e5_0', 'e5', '1_.5', '1._5',
              '1_0.2_5', 'inf', '+inf', '-Inf', 'infinity', 'INFINITY', 'infinit', 'in', 'nan', 'NaN', '-nan', 'nan ', ' nan', 'na', 'nane', '1e999', '9e308', '1e308', '1.8e308',
              '17976931e301', '1 2', '--1', '+-1', '1-', '0x10', '1,5', '\x1c3\x1f', '\t-7\n', 'abc', 'true', '1e-999', '00012', '-0', '-0.0', '12345678', '1.0e+2']
    bad = []
    ex = symx.Explorer()

    def run1(fn):
        out = {}

        def body():
            out['r'] = fn()
        list(ex.explore(body))
        return out.get('r')
    for txt in corpus:
        txt = txt.encode().decode('unicode_escape')
        s = bstr.BStr.of(txt, 12)
        # float
        try:
            want = float(txt)
            wkind = 'nan' if math.isnan(want) else ('inf' if math.isinf(want) else 'finite')
        except ValueError:
            wkind = 'invalid'

        def f():
            try:
                r = bstr.parse_float(s)
            except ValueError:
                return 'invalid'
            fin = r.finite.val if r.finite.is_const() else None
            nan = r.isnan.val if r.isnan.is_const() else None
            return 'finite' if fin else ('nan' if nan else 'inf')
        got = run1(f)
        if got != wkind:
            bad.append(('float', txt, wkind, got))
        # int
        try:
            wi = int(txt)
        except ValueError:
            wi = 'invalid'

        def g():
            try:
                r = bstr.parse_int(s)
            except ValueError:
                return 'invalid'
            return r if isinstance(r, int) else (r.term.val if r.term.is_const() else 'sym')
        gi = run1(g)
        if gi != wi:
            bad.append(('int', txt, wi, gi))
        # strip / lower / replace
        def h():
            a = s.strip().concrete()
            b = s.lower().concrete()
            c = s.replace('-', '').concrete()
            return (a, b, c)
        gs = run1(h)
        ws = (txt.strip(), txt.lower(), txt.replace('-', ''))
        if gs != ws:
            bad.append(('str', txt, ws, gs))
    return bad


def main():
    t0 = time.time()
    fail = False
    rep = run_repo_tests()
    print('selftest: repo tests on instrumented modules: run=%d passed=%d failures=%d errors=%d load_errors=%d (modules instrumented=%d, rewrites=%d)' % (
        rep['run'], rep['passed'], len(rep['failures']), len(rep['errors']), len(rep['load_errors']),
        instrument.STATS['modules'], instrument.STATS['rewrites']))
    if rep['failures'] or rep['errors'] or rep['passed'] < 55:
        fail = True
        for t, tb in rep['failures'] + rep['errors']:
            print('  FAIL', t)
            print(tb)
        for n, e in rep['load_errors']:
            print('  load error', n, e)
    if instrument.STATS['skipped_shadowed']:
        print('selftest: modules shadowing builtins (those names left untouched):', instrument.STATS['skipped_shadowed'])
    bad = proxy_corpus()
    print('selftest: proxy corpus mismatches: %d' % len(bad))
    if bad:
        fail = True
        for b in bad[:20]:
            print('  ', b)
    bad2 = dfa_corpus()
    print('selftest: string/DFA corpus mismatches: %d' % len(bad2))
    if bad2:
        fail = True
        for b in bad2[:20]:
            print('  ', b)
    probs = explorer_sanity()
    print('selftest: explorer sanity problems: %d' % len(probs))
    if probs:
        fail = True
        for p in probs:
            print('  ', p)
    print('selftest: %s in %.1fs' % ('FAILED' if fail else 'ok', time.time() - t0))
    sys.exit(2 if fail else 0)


if __name__ == '__main__':
    main()
