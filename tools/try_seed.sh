#!/bin/bash
# usage: tools/try_seed.sh <seed id> <src dir with patch.diff demo.py> <check ids...>
# 1. confirms the change in a scratch worktree (tests pass, demo fails with / passes without)
# 2. applies it to /repo, runs the given checks, reverts /repo
id=$1; src=$2; shift 2
wt=/tmp/wt/verify_$id
git -C /repo worktree remove --force $wt >/dev/null 2>&1
git -C /repo worktree add -q $wt HEAD || exit 2
cp $src/demo.py /tmp/wt/demo_$id.py
( cd $wt && git apply $src/patch.diff ) || { echo "PATCH DOES NOT APPLY"; git -C /repo worktree remove --force $wt; exit 2; }
tests=$(cd $wt && /venv/bin/python -m pytest -q -p no:cacheprovider --timeout=900 --continue-on-collection-errors 2>&1 | tail -1)
( cd $wt && timeout 120 /venv/bin/python /tmp/wt/demo_$id.py >/tmp/wt/demo_$id.with.log 2>&1 ); with=$?
( cd $wt && git apply -R $src/patch.diff )
( cd $wt && timeout 120 /venv/bin/python /tmp/wt/demo_$id.py >/tmp/wt/demo_$id.without.log 2>&1 ); without=$?
git -C /repo worktree remove --force $wt
echo "SEED $id: tests=[$tests] demo_with_change=$with demo_without=$without"
git -C /repo apply $src/patch.diff || { echo "cannot apply to /repo"; exit 2; }
for c in "$@"; do
  out=$(cd /verif && ./check $c 2>&1); rc=$?
  echo "  check $c rc=$rc :: $(echo "$out" | grep -c '^VIOLATION') violation line(s)"
  echo "$out" | grep -A1 '^VIOLATION' | head -6 | cut -c1-400
  echo "$out" | tail -1
done
git -C /repo checkout -- .
git -C /repo status --short | grep -v egg-info
