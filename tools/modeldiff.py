#!/usr/bin/env python3-vt
"""Debug aid: find a witness for 'solved and <line> < 0' (or any python-built
extra) on the whole-return model, replay on the real solver and print every
line whose status/value differs between model and reality."""
import sys, os, json
sys.path.insert(0, os.path.dirname(os.path.dirname(os.path.abspath(__file__))))
from fractions import Fraction
from hv import retmodel, common, terms as tm
year = int(sys.argv[1]); line = sys.argv[2]; nonneg = len(sys.argv) > 3 and sys.argv[3] == 'nonneg'
lf = retmodel.Lifter(year, 1, 2, ['1040'], nonneg=nonneg)
rm = lf.rm
r, inp, m = lf.query([rm.solved, rm.valued[line], tm.lt(rm.lvar[line][1], tm.R(0))])
print(r)
if r != 'sat':
    sys.exit()
out = common.run_real(['solve'], {'year': year, 'forms': ['1040'], 'inputs': inp})
print(out['exception'], out['solved'], out['unimplemented'])
mv = lambda t: lf.mv(m, t)
for n in rm.lines:
    real = out['solution'].get(n)
    st = 'valued' if mv(rm.valued[n]) else 'ni' if mv(rm.ni[n]) else 'err' if mv(rm.err[n]) else 'blocked' if mv(rm.blocked[n]) else '-'
    rst = 'valued' if real is not None else ('ni' if n in out['unimplemented'] else '-')
    val = mv(rm.lvar[n][1]) if rm.lvar[n][0] in ('num', 'enum') else None
    flag = ''
    if st != rst:
        flag = 'STATUS'
    elif real is not None and rm.lvar[n][0] == 'num' and rm.lvar[n][2] != 'bool':
        if abs(Fraction(real) - Fraction(val)) > Fraction(1, 100):
            flag = 'VALUE'
    elif real is not None and rm.lvar[n][0] == 'num' and (real == 'True') != val:
        flag = 'BOOL'
    if flag:
        print(flag, n, st, rst, float(val) if isinstance(val, Fraction) else val, real)
        for k, p in enumerate(rm.summ[n]):
            if (n, k) in rm.sel and mv(rm.sel[(n, k)]):
                print('    model path', k, p.kind, [tm.show(c)[:100] for c in p.conds], [x[1] for x in p.reads])
json.dump(inp, open('/tmp/witness.json', 'w'), indent=1)
