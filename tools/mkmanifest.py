#!/usr/bin/env python3
"""Regenerates /verif/MANIFEST.json from the table below (single source)."""
import json
import os

HERE = os.path.dirname(os.path.dirname(os.path.abspath(__file__)))
props = [json.loads(l) for l in open(os.path.join(HERE, 'properties.jsonl'))]

TB = 'z3 5.1 verdicts; CPython semantics for un-instrumented code; hv.instrument AST pass (validated by running the repo test-suite on the instrumented modules at setup); oracle files under /verif/oracle; bounds as listed in the evidence file'

CHECKS = {
 'C10': dict(
    technique='path-exhaustive symbolic execution of every shipped line definition (real Field.value on symbolic inputs/lines, z3 decides feasibility) + SMT lifting of each crashing path through a whole-return model to concrete inputs, replayed on the real Solver',
    text='Every line of every form of 2021-2023 (copy forms up to K instances) is run symbolically to path exhaustion; a feasible path ending in an unknown input/line/form (not deliberately absent) or Attribute/Name/Key/Assertion error is a candidate. z3 then decides whether any input assignment makes the real solver reach it (whole-return model: unsat = unreachable within the bound); sat witnesses are replayed on the uninstrumented Solver and only reproduced crashes are reported. Bounded: K copies per input form, S in total, amounts <= 1e8, whole cents.',
    design='4 C10', note=TB + '; oracle/absent_forms.json lists the deliberately absent forms; whole-return model validated differentially against the real Solver'),
 'C09': dict(
    technique='SMT queries over a whole-return model composed from path-exhaustive symbolic summaries of the real line definitions (z3: gate affirmative and consulted and solved must be unsat), witnesses replayed on the real Solver',
    text='For every gate input of oracle/gates.json (62-64 per year) and two arithmetic limit gates, z3 is asked whether some input assignment makes an evaluated line consult the gate with an affirmative answer (or exceed the limit) while the whole return still solves; unsat = impossible for every input inside the bound (K copies per input form, S in total, amounts <= 1e8 in whole cents, symbolic filing status). Each gate has a reachability twin (gate negative must be satisfiable). The model is the composition of the real line functions executed symbolically; it is validated differentially against the real Solver, and every sat witness is replayed on the uninstrumented code.',
    design='4 C09', note=TB + '; oracle/gates.json (generated from the pinned tree, reviewed) is the specification of the unsupported situations'),
 'C15': dict(
    technique='SMT queries over a whole-return model composed from path-exhaustive symbolic summaries of the real line definitions (z3: solved and not balance / solved and line < 0 must be unsat for non-negative inputs), witnesses replayed on the real Solver',
    text='For every year z3 is asked for a solved return (inputs >= 0, whole cents, symbolic filing status, K copies per input form / S in total) in which 34-37 != 33-24, both 34 and 37 are positive, 35a+36 != 34, or a line that the forms define as non-negative (oracle/nonneg.json, ~60 lines) is negative; unsat = impossible inside the bound. figure_tax is replaced by the rate-schedule term C07 proves it equal to, rounding by the banded model (identity on operands already on the cent grid). Witnesses are replayed on the uninstrumented Solver; reachability twins guard against vacuity. NC balance only in the thorough tier.',
    design='4 C15', note=TB + '; oracle/nonneg.json lists the lines the forms define as non-negative'),
 'C07': dict(
    technique='bounded symbolic execution of the real figure_tax on a symbolic real income (proxy objects through the real bytecode, z3 decides path feasibility) + per-path SMT equivalence with the statutory rate schedule',
    text='Every path of the real figure_tax/figure_tax_table/figure_tax_worksheet (one per table row and worksheet row, for each year and each of the 5 statuses) is enumerated by the symbolic executor; for each, z3 proves value(x) == schedule(x) for every real x on that path (unsat of the negation), that no feasible x falls through, and monotonicity across adjacent pieces. Holds for all real x in [0,1e12]; float rounding of the worksheet kernel is bounded by an NRA lemma under the IEEE standard model. Witnesses are replayed on the uninstrumented code before being reported.',
    design='4 C07', note=TB + '; rate schedules transcribed from Rev. Proc. 2020-45/2021-45/2022-38'),
}


ALGO_TEXT = ('The real Solver, DependencyTracker, ValueStore, FormAccessor and InputStore run on generated form programs whose line behaviour '
             '(read line / read input / not-implemented / return, branching on uninterpreted predicates), input presence, prompt answers/refusals and attempt order '
             '(symbolic ranks in place of sort_keys) are SMT choices; z3 decides feasibility and the explorer enumerates every case inside the bound (configs listed in the evidence), '
             'values being EUF terms. %s Violating paths are turned into concrete programs and replayed on the uninstrumented code. (Q1 of DESIGN.md: finite-domain exploration, '
             'the end-state assertions are evaluated per path.)')
ALGO_NOTE = TB + '; the oracle contract "a line is a deterministic function of what it reads"; unknown input names excluded (C10)'
ALGO = {
 'C01': 'Asserted on every end state: solve()==True implies every scheduled line has a value, no unimplemented line, no waiter; False implies every unvalued scheduled line is named in the diagnostics; aborts only by NotImplementedError for the unsupported form.',
 'C03': 'Asserted on every end state (complete or partial): each stored value equals (EUF, solver-decided) the re-evaluation of its definition against the final stores.',
 'C04': 'Asserted on every solved end state: solution keys == required lines of participating forms + lines read by contained lines (observed on re-evaluation), Solver.forms == forms of those lines; on partial solutions nothing undemanded is stored.',
 'C05': 'Asserted on every path without a refusal: the result under the explored symbolic attempt order equals the result under the natural order, and the same inputs supplied by file instead of prompt give the same result.',
 'C06': 'Asserted on every path: a step budget is never exceeded (termination), each input is prompted at most once and never after a refusal, attempts(line) <= 2 + distinct waits; cycles, self-reference, unsupported form and refusing users are oracle actions.',
 'C13': 'Asserted on every path: prompts quote only lines that raised MissingInput for that input, each input asked at most once, a re-run on the written-back store asks nothing and gives the identical result.',
}
for _pid, _t in ALGO.items():
    CHECKS[_pid] = dict(technique='bounded symbolic execution of the real solver algorithm on SMT-chosen form programs (lazy path enumeration, EUF values, symbolic schedule)',
                        text=ALGO_TEXT % _t, design='3.8, 4 ' + _pid, note=ALGO_NOTE)

NOT_YET = 'check not built yet (work in progress, see DESIGN.md section 4)'
NA = {}

m = {
 'version': 1,
 'setup_cmd': 'python3-vt -m hv.selftest',
 'hooks': {'guard': 'HABUTAX_VERIF',
           'enable': 'none needed: checks load habutax from /repo source through an AST import hook (hv/instrument.py); no guarded source change exists in /repo',
           'baseline_off_cmd': 'cd /repo && /venv/bin/python -m pytest -ra -q -p no:cacheprovider --timeout=900 --continue-on-collection-errors',
           'source_commits': [], 'add_only': True},
 'engines': [{'name': 'hv.symx', 'path': 'hv/', 'serves_properties': sorted(CHECKS),
              'kind_free_text': 'proxy-object symbolic executor for the real Python bytecode (terms -> z3), path enumeration by re-execution, AST import hook for is/in/builtins/f-strings; replays on uninstrumented code under /venv/bin/python'}],
 'checks': [],
 'notes': 'Solver-based checking of the real code; see DESIGN.md. Exit codes: 0 ok, 1 violation (VIOLATION line), 2 harness error. known_findings.json lists genuine defects (known / fixed).',
 'not_applicable': [],
}
for p in props:
    pid = p['id']
    if pid in CHECKS:
        c = CHECKS[pid]
        m['checks'].append({
            'property_id': pid,
            'quick_cmd': './check %s --tier quick' % pid,
            'thorough_cmd': './check %s --tier thorough' % pid,
            'evidence_file': 'evidence/%s.json' % pid,
            'replay_cmd_template': './check %s --replay {path}' % pid,
            'engine': 'hv.symx',
            'level_claimed': {'category': 'other', 'text': c['text'], 'design_ref': c['design']},
            'level_note': c['note'],
            'technique': c['technique'],
        })
    else:
        m['not_applicable'].append({'property_id': pid, 'reason': NA.get(pid, NOT_YET)})
json.dump(m, open(os.path.join(HERE, 'MANIFEST.json'), 'w'), indent=1)
print('checks:', [c['property_id'] for c in m['checks']])
