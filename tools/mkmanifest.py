#!/usr/bin/env python3
"""Regenerates /verif/MANIFEST.json from the table below (single source)."""
import json
import os

HERE = os.path.dirname(os.path.dirname(os.path.abspath(__file__)))
props = [json.loads(l) for l in open(os.path.join(HERE, 'properties.jsonl'))]

TB = 'z3 5.1 verdicts (whole-return queries that z3 leaves unknown are decided by the cvc5 1.0.3 binary on the same SMT-LIB2 text; its sat models are re-checked by z3 and replayed); CPython semantics for un-instrumented code; hv.instrument AST pass (validated by running the repo test-suite on the instrumented modules at setup); oracle files under /verif/oracle; bounds as listed in the evidence file'

CHECKS = {
 'C10': dict(
    technique='path-exhaustive symbolic execution of every shipped line definition (real Field.value on symbolic inputs/lines, z3 decides feasibility) + SMT lifting of each crashing path through a whole-return model to concrete inputs, replayed on the real Solver',
    text='Every line of every form of 2021-2023 (copy forms up to K instances) is run symbolically to path exhaustion; a feasible path ending in an unknown input/line/form (not deliberately absent) or Attribute/Name/Key/Assertion error is a candidate. z3 then decides whether any input assignment makes the real solver reach it (whole-return model: unsat = unreachable within the bound); sat witnesses are replayed on the uninstrumented Solver and only reproduced crashes are reported. Bounded: K copies per input form, S in total, amounts <= 1e8, whole cents.',
    design='4 C10', note=TB + '; oracle/absent_forms.json lists the deliberately absent forms; whole-return model validated differentially against the real Solver'),
 'C09': dict(
    technique='SMT queries over a whole-return model composed from path-exhaustive symbolic summaries of the real line definitions (z3: gate affirmative and consulted and solved must be unsat), witnesses replayed on the real Solver',
    text='For every gate input of oracle/gates.json (62-64 per year on the Form 1040 closure, 4-5 NC gates per year on the 1040 + NC D-400 closure) and two arithmetic limit gates, z3 is asked whether some input assignment makes an evaluated line consult the gate with an affirmative answer (or exceed the limit) while the whole return still solves; unsat = impossible for every input inside the bound (K copies per input form, S in total, amounts <= 1e8 in whole cents, symbolic filing status). The Schedule B row-capacity gate (more than 14 payers) is decided at unit level: every required Schedule B line is executed symbolically with the count symbolic in 0..16 and all other reads free, and z3 must find no value path with count > 14 on some required line; a unit witness is confirmed on a constructed 15-copy run of the real Solver. Each gate has a reachability twin (gate negative must be satisfiable). The model is the composition of the real line functions executed symbolically; it is validated differentially against the real Solver, and every sat witness is replayed on the uninstrumented code.',
    design='4 C09', note=TB + '; oracle/gates.json (generated from the pinned tree, reviewed) is the specification of the unsupported situations'),
 'C15': dict(
    technique='SMT queries over a whole-return model composed from path-exhaustive symbolic summaries of the real line definitions (z3: solved and not balance / solved and line < 0 must be unsat for non-negative inputs), witnesses replayed on the real Solver',
    text='For every year z3 is asked for a solved return (inputs >= 0, whole cents, symbolic filing status, K copies per input form / S in total) in which 34-37 != 33-24, both 34 and 37 are positive, 35a+36 != 34, or a line that the forms define as non-negative (oracle/nonneg.json, ~60 federal and ~30 NC lines) is negative, and likewise for the NC return (28-26a == 25-19, 34+33 == 28) on the 1040 + NC D-400 closure; unsat = impossible inside the bound. figure_tax is replaced by the rate-schedule term C07 proves it equal to, rounding by the banded model (identity on operands already on the cent grid). Witnesses are replayed on the uninstrumented Solver; reachability twins guard against vacuity.',
    design='4 C15', note=TB + '; oracle/nonneg.json lists the lines the forms define as non-negative'),
 'C11': dict(
    technique='bounded symbolic execution of the real input layer on a symbolic string (code-point array + length, z3 decides path feasibility); float()/int()/re as symbolic DFAs validated against CPython; finiteness by SMT query',
    text='For each input class (String, Boolean, Integer, Float, Enum with/without empty, the two shipped regex inputs, SSN) the real InputStore.__getitem__, valid(), value() and prompt_input run on a symbolic ASCII string of bounded length (4-11 characters by class); every feasible path is a region of input texts on which the assertions (value => valid and declared type and finite - and, for an SSN, nine digits; rejected => InvalidInput; present <=> no MissingInput; prompt loop returns only valid text) are evaluated, finiteness as an SMT query. Holds for every ASCII text up to the bound; witness texts are replayed on the real code.',
    design='4 C11', note=TB + '; grammar DFAs of float()/int() and the two regexes are the stub contract (self-test compares them with CPython on an adversarial corpus); non-ASCII outside'),
 'C12': dict(
    technique='bounded symbolic execution of the real TypedField/FloatField/EnumField.value on an SMT-chosen tagged return value with symbolic payload; rounding grid/band by SMT query',
    text='For every field class and places in {0,2,5} the definition returns a value whose tag (None, bool, int, float, blank text, text, member of the right / of another enum, an IntEnum member, an instance of a str or float subclass) is an SMT choice and whose payload is symbolic; on each path the stored result must have exactly the declared type, None/blank must become the empty value, money must be on the 10^-places grid within half a unit of the returned value (z3), and every other tag must raise a TypeError naming the line. Violations are replayed on the real code.',
    design='4 C12', note=TB + '; banded rounding model (DESIGN 3.3)'),
 'C18': dict(
    technique='symbolic execution of the real ButtonPDFField.value and mapping lambdas on a symbolic driving value per check-box group, and of needs_filing() on symbolic line values (z3 decides exclusivity / fileability); finite-domain comparison of every mapping with the field tree parsed from the bundled PDFs',
    text='All ~1245 mappings of all years are compared with the template field tree re-extracted from the bundled PDFs on every run (XFA accessibility text, AcroForm names, appearance states, MaxLen): target exists, line label agrees, no double mapping, mapped line exists, export value known to the widget, length limits agree. For every group of boxes sharing a template parent and a driving line the real value()/value_fn run on a symbolic Bool / nullable enum member / int and z3 shows no value switches two boxes on; needs_filing() runs on symbolic line values to decide which forms can require filing (those need template + mappings). (Q1: the table part is finite-domain.)',
    design='4 C18', note=TB + '; hv.pdftemplate parser (XFA names cross-checked against AcroForm names); oracle/pdf_label_exceptions.json'),
 'C20': dict(
    technique='exhaustive exploration, with SMT-enumerated session variables (missing-input subset, cut index k, interruption kind), of the real habutax.solve(args) with prompting and write-back over real temp files; base inputs from the whole-return model',
    text='Sessions of the real CLI solve path (real configparser, real temp files, scripted input()) are enumerated exhaustively: every non-empty subset of 4 (quick) / 6 candidate inputs missing from the file, every prompt index k at which the session is cut, by KeyboardInterrupt, EOFError, by an answer the input rejects followed by Ctrl-C at the retry prompt, or by reaching the unsupported Schedule 2. Afterwards the file must parse, hold every prior value and every answer given before the cut, and a re-run must not ask for those again. The base input assignment is a solved return found by z3 on the whole-return model. (Q1: finite-domain exploration; each session is a concrete run.)',
    design='4 C20', note=TB + '; a deterministically failing line after a prompt is not available in the shipped forms (covered through the unsupported-form abort only)'),
 'C19': dict(
    technique='bounded symbolic execution of the real PDFFiller._create_fdf on a symbolic printable-ASCII value followed by a symbolic reference decoder of the PDF literal-string syntax (z3: decoded == value and the dictionary closes, on every path); the real PDFFiller.fill with stubbed pdftk on SMT-chosen subsets of the sections of a solved solution',
    text='The real _create_fdf writes a field whose value is a symbolic printable-ASCII string (<= 3 quick / 4 thorough characters) into a captured file; a reference decoder of PDF literal strings (balanced parentheses, backslash escapes, octal) runs symbolically over the captured text and z3 must show decode(fdf(v)) == v and that the entry closes right after it, for every such string. The real fill() then runs with a recording pdftk stub on every subset (SMT-enumerated) of the sections of a real solved solution per year: the fill_form commands must name exactly the fileable forms, once each, in (jurisdiction, sequence) order, never an input-only form or worksheet. Witness values are replayed through the real _create_fdf. If the implementation does something to the value the string encoding cannot follow (e.g. a regular expression), those paths are INCONCLUSIVE and a supplementary, violation-only pass sends every word over one representative per character class of the decoder through the real code.',
    design='4 C19', note=TB + '; the reference decoder (PDF 32000-1 7.3.4.2) is the oracle; values longer than the bound and non-ASCII text outside'),
 'C14': dict(
    technique='bounded symbolic execution of the real to_string/from_string pairs on symbolic values (exact digit-chain rendering, float()/int() grammar DFAs) with z3 deciding from_string(to_string(v)) == v per path; INI layer and year tag on solver-generated witness solutions through the real solve/write/fill path',
    text='For every field class the real to_string and from_string run on a symbolic value of the line type: money on its 10^-places grid for places 0, 2, 5 with |x| < 1e8 (1e12 thorough) rendered digit by digit and parsed back by the float() DFA and the real round(); ints likewise; both bools; every enum member and None; printable text. z3 shows the value read back equals the value written on every path. The INI text layer (real configparser) and the [habutax] year tag are exercised on solver-generated solved returns through the real solve -> write -> filler re-read (witness level, stated as such).',
    design='4 C14', note=TB + '; rendering of f-string .Nf as exact decimal with half-unit band; int()/str() applied through the DFA stubs; configparser text layer for arbitrary strings outside'),
 'C17': dict(
    technique='symbolic execution of the real Form.threshold on a symbolic filing status per threshold table (z3: assertion unreachable, keys unambiguous); finite-domain catalogue facts from the real constructors and the real list-form-inputs command',
    text='For every form instance of every year: instantiable for each allowed instance, declares the catalogue year, unique name, metadata present, input and line names duplicate-free / dot-free / lower-case, and the real list-form-inputs output parses back (configparser) naming exactly the declared inputs. Every status-keyed threshold table is looked up through the real Form.threshold with a symbolic status: no status reaches the assertion and no status matches two keys. (Q1: catalogue facts are finite-domain.)',
    design='4 C17', note=TB),
 'C08': dict(
    technique='path-exhaustive symbolic summaries of the real line definitions (incl. the real Form.threshold on a symbolic filing status), each path restricted to a status by an SMT feasibility query; constants of the feasible paths compared with an independent table of published amounts',
    text='For each of 28 statutory entries (standard deductions, capital-gain breakpoints, AMT exemption/phase-out/28% breakpoint, QBI threshold, Additional Medicare thresholds, HSA limits, SALT cap, Form 1116 limit, saver credit limits, EIC limits, CTC/ODC/ACTC amounts and phase-outs, 2021 ARPA and recovery-rebate amounts, Schedule B threshold, NC rate / standard deduction / child deduction table) and every line in which it shows, the line summary is restricted to each of the 5 filing statuses (z3 feasibility per path); the numeric constants of the feasible paths must contain the published amount for that year and status and none of the other years / statuses amounts (stale or swapped constants). 315 (year, entry, line, status) obligations; violations are confirmed on the uninstrumented source.',
    design='4 C08', note=TB + '; oracle/statutory.json transcribed from Rev. Proc. 2020-45 / 2021-45 / 2022-38, form instructions and NC D-401 (it agreed with the shipped code on all but the 3 defects that were fixed)'),
 'C16': dict(
    technique='relational SMT queries: per-line summary invariance under swapping the two copies of an input form (one query R(x,o1) and R(pi x,o2) and o1 != o2 per line, inductive along the read graph); two renamed copies of the whole-return model differing in one input for the monotonicity / exact-response claims',
    text='(a) For K=2 copies of each input form (W-2, 1099-INT/DIV/R/G, 1098) and every line that reads a numbered copy, z3 shows that no values make the line differ when copies 0 and 1 are swapped (per-payer listing rows are shown equivariant instead: row0(x) == row1(pi x), and the lines reading them are checked under the joint swap of copies and rows); with an acyclic read graph the whole return is then invariant. A sat model is replayed on the real line definition (as numbered / renumbered) before it is reported. (b) Wages up => total tax not lower, deduction up => not higher, withholding + d => refund-minus-owed + d are posed as relational queries on two copies of the whole-return model (both solved, figure_tax = the schedule term C07 verifies) under a time cap; queries that time out are reported INCONCLUSIVE and named in the evidence, never counted as discharged. Witnesses are replayed as two real solves.',
    design='4 C16', note=TB + '; lines with more than 400 paths (NC withholding lines at K=2) and timed-out relational queries are inconclusive'),
 'C02': dict(
    technique='SMT queries over a whole-return model composed from path-exhaustive symbolic summaries of the real line definitions: solved and |line - official instruction(other lines)| > tolerance must be unsat; instructions parsed by a grammar from the accessibility text of the bundled IRS templates (re-extracted each run)',
    text='The per-line instruction (Add lines a through b / a, b and c; Subtract line a from line b [floor at 0]; Multiply line a by r% (0.0r) or by $c; Enter the smaller/larger of ...; smaller of line a or $c ($d if MFS); Enter the amount from line a / from Schedule X, line n / from Form 1040, line n) is parsed out of the XFA text of every mapped numeric line of every IRS template of 2021-2023 (80-94 instructions per year; unparsed text leaves the line uncovered and counted). For each, z3 is asked for a solved return (symbolic filing status, K copies, whole cents) in which the stored line differs by more than half a cent + eps from the instruction applied to the other stored lines (blank = 0); unsat = equal for every input inside the bound. Witnesses are replayed on the real Solver with an independent evaluation of the instruction.',
    design='4 C02', note=TB + '; oracle/instruction_overrides.json (reviewed transcriptions / exclusions); worksheets and NC schedules have no machine-readable text and are not covered; NC D-400 is covered by a cited transcription of 15 computed lines'),
 'C07': dict(
    technique='bounded symbolic execution of the real figure_tax on a symbolic real income (proxy objects through the real bytecode, z3 decides path feasibility) + per-path SMT equivalence with the statutory rate schedule',
    text='Every path of the real figure_tax/figure_tax_table/figure_tax_worksheet (one per table row and worksheet row, for each year and each of the 5 statuses) is enumerated by the symbolic executor; for each, z3 proves value(x) == schedule(x) for every real x on that path (unsat of the negation), that no feasible x falls through, and monotonicity across adjacent pieces. Holds for all real x in [0,1e12]; float rounding of the worksheet kernel is bounded by an NRA lemma under the IEEE standard model. Witnesses are replayed on the uninstrumented code before being reported.',
    design='4 C07', note=TB + '; rate schedules transcribed from Rev. Proc. 2020-45/2021-45/2022-38'),
}


ALGO_TEXT = ('The real Solver, DependencyTracker, ValueStore, FormAccessor and InputStore run on generated form programs whose line behaviour '
             '(read line / read input / not-implemented / return, branching on uninterpreted predicates), input presence, prompt answers/refusals and attempt order '
             '(symbolic ranks in place of sort_keys) are SMT choices; z3 decides feasibility and the explorer enumerates every case inside the bound (configs listed in the evidence), '
             'values being EUF terms; lines read their own form by relative name (so the accessor binding is observable) and one configuration requests two numbered copies of a form together. %s Violating paths are turned into concrete programs and replayed on the uninstrumented code. (Q1 of DESIGN.md: finite-domain exploration, '
             'the end-state assertions are evaluated per path.)')
ALGO_NOTE = TB + '; the oracle contract "a line is a deterministic function of what it reads"; unknown input names excluded (C10)'
ALGO = {
 'C01': 'Asserted on every end state: solve()==True implies every scheduled line has a value, no unimplemented line, no waiter; False implies every unvalued scheduled line is named in the diagnostics; aborts only by NotImplementedError for the unsupported form.',
 'C03': 'Asserted on every end state (complete or partial): each stored value equals (EUF, solver-decided) the re-evaluation of its definition against the final stores.',
 'C04': 'Asserted on every solved end state: solution keys == required lines of participating forms + lines read by contained lines (observed on re-evaluation), Solver.forms == forms of those lines; on partial solutions nothing undemanded is stored.',
 'C05': 'Asserted on every path without a refusal: the result under the explored symbolic attempt order equals the result under the natural order, and the same inputs supplied by file instead of prompt give the same result.',
 'C06': 'Asserted on every path: a step budget is never exceeded (termination), each input is prompted at most once and never after a refusal, attempts(line) <= 2 + distinct waits; cycles, self-reference, unsupported form and refusing users are oracle actions.',
 'C13': 'Asserted on every path: prompts quote only lines that raised MissingInput for that input, each input asked at most once, a re-run on the written-back store asks nothing and gives the identical result.',
}
for _pid, _t in ALGO.items():
    CHECKS[_pid] = dict(technique='bounded symbolic execution of the real solver algorithm on SMT-chosen form programs (lazy path enumeration, EUF values, symbolic schedule)',
                        text=ALGO_TEXT % _t, design='3.8, 4 ' + _pid, note=ALGO_NOTE)

NOT_YET = 'check not built yet (work in progress, see DESIGN.md section 4)'
NA = {}

m = {
 'version': 1,
 'setup_cmd': 'python3-vt -m hv.selftest',
 'hooks': {'guard': 'HABUTAX_VERIF',
           'enable': 'none needed: checks load habutax from /repo source through an AST import hook (hv/instrument.py); no guarded source change exists in /repo',
           'baseline_off_cmd': 'cd /repo && /venv/bin/python -m pytest -ra -q -p no:cacheprovider --timeout=900 --continue-on-collection-errors',
           'source_commits': [], 'add_only': True},
 'engines': [{'name': 'hv.symx', 'path': 'hv/', 'serves_properties': sorted(CHECKS),
              'kind_free_text': 'proxy-object symbolic executor for the real Python bytecode (terms -> z3), path enumeration by re-execution, AST import hook for is/in/builtins/f-strings; whole-return SMT model composed from the path summaries, decided by z3 with the cvc5 binary as second engine; replays on uninstrumented code under /venv/bin/python'}],
 'checks': [],
 'notes': 'Solver-based checking of the real code; see DESIGN.md. Exit codes: 0 ok, 1 violation (VIOLATION line), 2 harness error. known_findings.json lists genuine defects (known / fixed).',
 'not_applicable': [],
}
for p in props:
    pid = p['id']
    if pid in CHECKS:
        c = CHECKS[pid]
        m['checks'].append({
            'property_id': pid,
            'quick_cmd': './check %s --tier quick' % pid,
            'thorough_cmd': './check %s --tier thorough' % pid,
            'evidence_file': 'evidence/%s.json' % pid,
            'replay_cmd_template': './check %s --replay {path}' % pid,
            'engine': 'hv.symx',
            'level_claimed': {'category': 'other', 'text': c['text'], 'design_ref': c['design']},
            'level_note': c['note'],
            'technique': c['technique'],
        })
    else:
        m['not_applicable'].append({'property_id': pid, 'reason': NA.get(pid, NOT_YET)})
json.dump(m, open(os.path.join(HERE, 'MANIFEST.json'), 'w'), indent=1)
print('checks:', [c['property_id'] for c in m['checks']])
