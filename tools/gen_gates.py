#!/usr/bin/env python3-vt
"""One-off generator for oracle/gates.json: for every Boolean input of every
year, asks the whole-return model whether a solved return can consult it with
an affirmative answer.  Inputs for which that is impossible on the pinned tree
are gate candidates; the list is then reviewed by hand against the input
descriptions (it is the specification of 'situations HabuTax does not
implement') and committed.  NOT run by the checks."""
import json, os, sys
sys.path.insert(0, os.path.dirname(os.path.dirname(os.path.abspath(__file__))))
from hv import retmodel, terms as tm

out = {}
for year in (2021, 2022, 2023):
    retmodel.preload([(year, 1, {'S': 2, 'ft': 'uf', 'cents': True})])
    os.environ['HV_PRELOADED'] = '1'
    lf = retmodel.Lifter(year, 1, 2, sys.argv[1].split(','), timeout_ms=30000)
    rm = lf.rm
    I = rm.cat.hab_inputs
    gates = []
    for name in rm.input_names():
        inp = rm.cat.input(name)
        if type(inp) is not I.BooleanInput:
            continue
        if len(sys.argv) > 2 and not name.startswith(sys.argv[2]):
            continue
        g = tm.var('i:' + name, 'B')
        consulted = []
        for n in rm.lines:
            for k, p in enumerate(rm.summ[n]):
                if (n, k) in rm.sel and any(kind == 'read_input' and nm == name for kind, nm, _ in p.reads):
                    consulted.append(rm.sel[(n, k)])
        if not consulted:
            continue
        r, _, _ = lf.query([rm.solved, g, tm.or_(*consulted)], want_inputs=False)
        r0, _, _ = lf.query([rm.solved, tm.not_(g), tm.or_(*consulted)], want_inputs=False)
        print(year, name, r, r0, flush=True)
        if r == 'unsat' and r0 == 'sat':
            gates.append({'input': name, 'description': inp.help()[:160]})
    out[str(year)] = gates
json.dump(out, open(os.path.join(os.path.dirname(os.path.dirname(os.path.abspath(__file__))), 'oracle', 'gates.generated.%s.json' % sys.argv[1].replace(',', '+')), 'w'), indent=1)
